import Momo.Model.PoolAlloc
import Momo.Model.PoolAllocFault
import Momo.Model.Pool
import Driver.Engine
open Momo.PoolAlloc
/-!
  Line protocol of the pool-allocator model (C20).
  Header: `model poolalloc mode=trace|cont N=<blocks per buffer> C=<cached free blocks> cb=<size of the
  allocate_shared control block> arena=<absolute address of the arena> maxalign=<UIntConst::maxAlignment>`.
  All addresses in op and answer lines are offsets from the arena start.

  mode=trace (allocator level; the pool behind every `PoolSt` is C09's state machine `Momo.Pool`, so the
  model predicts every returned pointer and every call of the base allocator):
      anew tsize talign cbaddr | acopy p | adrop p | alloc p tsize talign n base… | dealloc p tsize talign n ptr
      | ledger
      | allocfail p tsize talign n   (this `allocate(n)` threw bad_alloc: `FOp.allocFail`; on the pool path the model checks with
                                      C09's pool that the request really reaches the base allocator)
      | anewfail tsize talign        (the explicit constructor threw in allocate_shared: `FOp.newFail`)
  mode=cont (container level; which blocks a call allocated / freed and which buffers the pool obtained /
  returned are taken from the op line):
      newAlloc e tsize talign cb | newFrom e src | mutate e act… | copyAssign d c act… |
      copyConstruct d c tsize talign cb act… | moveConstruct d c | moveAssign d c act… | swap d c |
      splice d c id… | destroy e act…
      act = +id:tsize:talign:n:m1,m2,…   (allocation; `-` for no buffer)   |   -id:f1,f2,…   (deallocation)
      calls in which an allocation threw (`FCOp`): newAllocFail e tsize talign | mutateF e fact… | copyAssignF d c fact… |
      copyConstructF d c tsize talign cb fact… | copyConstructNewFail d c tsize talign (threw inside select_on_container_copy_construction)
      fact = act | !tsize:talign:n   (this allocation threw bad_alloc)
-/
namespace Driver.PoolAlloc

structure PoolX where
  P : Momo.Pool.Params
  pool : Momo.Pool.Pool

structure St where
  trace : Bool := true
  N : Nat := 32
  C : Nat := 16
  cb : Nat := 80
  arena : Int := 0
  maxAlign : Nat := 16
  sys : Sys := Sys.init
  px : List (Nat × PoolX) := []          -- trace mode: concrete pool behind pool id
  sizes : List (Nat × Nat) := []         -- base block id -> size
  cs : CSys := CSys.init
  halted : Bool := false

def errStr : Err → String
  | .illegal => "illegal"
  | .rawIntoPool id => s!"rawIntoPool {id}"
  | .poolIntoRaw id => s!"poolIntoRaw {id}"
  | .countMismatch p => s!"countMismatch {p}"

def clsOf (s : St) (tsize talign : Nat) : Cls := paramsOf s.N s.maxAlign tsize talign

def mkParams (s : St) (c : Cls) : Momo.Pool.Params := ⟨Int.ofNat c.1, Int.ofNat c.2, Int.ofNat s.N, s.C⟩

def rel (s : St) (a : Int) : Nat := (a - s.arena).toNat
def abs (s : St) (a : Nat) : Int := s.arena + Int.ofNat a

def evStr (s : St) (evs : List Momo.Pool.Ev) : String :=
  if evs.isEmpty then "-" else
  " ".intercalate (evs.map fun e => match e with
    | .malloc b sz => s!"M{rel s b}:{sz}"
    | .free a sz => s!"F{rel s a}:{sz}")

def mallocsOf (s : St) (evs : List Momo.Pool.Ev) : List (Nat × Nat) :=
  evs.filterMap fun e => match e with | .malloc b sz => some (rel s b, sz.toNat) | _ => none
def freesOf (s : St) (evs : List Momo.Pool.Ev) : List Nat :=
  evs.filterMap fun e => match e with | .free a _ => some (rel s a) | _ => none

def ledgerStr (s : St) (sys : Sys) (sizes : List (Nat × Nat)) : String :=
  let bytes := sys.base.foldl (fun acc e => acc + ((sizes.lookup e.id).getD 0)) 0
  let _ := s
  s!"L={sys.base.length}/{bytes}"

def poolStr (sys : Sys) (p : Nat) : String :=
  match sys.pools[p]? with
  | none => s!"p{p}?"
  | some st => if st.dead then s!"p{p} dead" else s!"p{p} par={st.params.1}/{st.params.2} ac={st.allocCount} rc={st.refs}"

def getPx (s : St) (p : Nat) : Option PoolX := s.px.lookup p
def setPx (s : St) (p : Nat) (x : PoolX) : St := { s with px := (p, x) :: s.px.filter (fun e => e.1 != p) }

def heldOf (sys : Sys) (p : Nat) : List Nat :=
  (sys.base.filter (fun e => e.pid == p && e.kind == .buf)).map (·.id)

def sameSet (a b : List Nat) : Bool := a.all (b.contains ·) && b.all (a.contains ·) && a.length == b.length

/-- finish a trace-mode operation: apply the abstract step, report -/
def finish (s : St) (op : Op) (sizes : List (Nat × Nat)) (px : List (Nat × PoolX)) (head : String) (p : Nat)
    (evs : String) (note : String := "") : St × String :=
  let sys' := step s.sys op
  match sys'.err with
  | some e => ({ s with sys := sys', halted := true }, s!"ERR {errStr e}")
  | none =>
    let s' := { s with sys := sys', sizes := sizes, px := px }
    (s', s!"{head}{poolStr sys' p} | {evs} | {ledgerStr s' sys' sizes}{note}")

def dropSizes (sizes : List (Nat × Nat)) (ids : List Nat) : List (Nat × Nat) := sizes.filter (fun e => !ids.contains e.1)

/-- finish a trace-mode operation of the fault layer: apply the abstract step `fstep`, report -/
def ffinish (s : St) (op : FOp) (sizes : List (Nat × Nat)) (px : List (Nat × PoolX)) (head : String) (p : Nat)
    (evs : String) (note : String := "") : St × String :=
  let sys' := fstep s.sys op
  match sys'.err with
  | some e => ({ s with sys := sys', halted := true }, s!"ERR {errStr e}")
  | none =>
    let s' := { s with sys := sys', sizes := sizes, px := px }
    (s', s!"{head}{poolStr sys' p} | {evs} | {ledgerStr s' sys' sizes}{note}")

def traceStep (s : St) : List String → St × String
  | ["anew", tsize, talign, cbaddr] =>
    let cls := clsOf s (nat! tsize) (nat! talign)
    let p := s.sys.pools.length
    let s1 := setPx s p ⟨mkParams s cls, Momo.Pool.Pool.empty⟩
    finish s (.anew cls (nat! cbaddr)) ((nat! cbaddr, s.cb) :: s.sizes) s1.px "" p s!"M{nat! cbaddr}:{s.cb}"
  | ["acopy", p] => finish s (.acopy (nat! p)) s.sizes s.px "" (nat! p) "-"
  | ["adrop", ps] =>
    let p := nat! ps
    match livePool s.sys p, getPx s p with
    | some st, some x =>
      if 2 ≤ st.refs then finish s (.adrop p) s.sizes s.px "" p "-"
      else
        -- last owner: `~MemPool` (C09), then the control block goes back
        match Momo.Pool.destroy x.P x.pool with
        | .ok _ _ evs =>
          let frees := freesOf s evs
          let held := heldOf s.sys p
          let cbs := (s.sys.base.filter (fun e => e.pid == p && e.kind == .cb)).map (·.id)
          let note := if sameSet frees held then "" else " HELD-MISMATCH"
          let cbEv := " ".intercalate (cbs.map fun c => s!"F{c}:{s.cb}")
          finish s (.adrop p) (dropSizes s.sizes (frees ++ cbs)) (s.px.filter (fun e => e.1 != p)) "" p
            ((if evs.isEmpty then "" else evStr s evs ++ " ") ++ cbEv) note
        | .badAlloc _ _ => (s, "pool-model: bad_alloc in destructor")
        | .stuck w => ({ s with halted := true }, s!"STUCK {w}")
    | _, _ => finish s (.adrop p) s.sizes s.px "" p "-"
  | "alloc" :: ps :: tsize :: talign :: ns :: answers =>
    let p := nat! ps
    let n := nat! ns
    let cls := clsOf s (nat! tsize) (nat! talign)
    match livePool s.sys p, getPx s p with
    | some st, some x =>
      if n == 1 && (cls == st.params || st.allocCount == 0) then
        -- pool path, possibly after replacing the pool object (119)
        let reparam := cls != st.params
        let pre : Option (PoolX × List Momo.Pool.Ev) :=
          if reparam then
            match Momo.Pool.destroy x.P x.pool with
            | .ok _ _ evs => some (⟨mkParams s cls, Momo.Pool.Pool.empty⟩, evs)
            | _ => none
          else some (x, [])
        match pre with
        | none => ({ s with halted := true }, "STUCK ~MemPool of the replaced pool")
        | some (x1, evs0) =>
          let orc : Momo.Pool.Oracle := fun k => (answers[k]?).map fun a => abs s (nat! a)
          match Momo.Pool.allocate x1.P x1.pool orc with
          | .ok blk pool' evs1 =>
            let evs := evs0 ++ evs1
            let ms := mallocsOf s evs1
            let fr := freesOf s evs0
            let note := if !reparam || sameSet fr (heldOf s.sys p) then "" else " HELD-MISMATCH"
            let s1 := setPx s p ⟨x1.P, pool'⟩
            finish s (.alloc p cls n (rel s blk) (ms.map (·.1))) (ms ++ dropSizes s.sizes fr) s1.px
              s!"{rel s blk} " p (evStr s evs) note
          | .badAlloc _ _ => (s, "E:bad_alloc")
          | .stuck w => ({ s with halted := true }, s!"STUCK {w}")
      else
        -- memory-manager path: the answer of the base allocator is the block
        match answers with
        | [a] =>
          let sz := n * nat! tsize
          finish s (.alloc p cls n (nat! a) []) ((nat! a, sz) :: s.sizes) s.px s!"{nat! a} " p s!"M{nat! a}:{sz}"
        | _ => (s, "bad-op: raw allocation needs exactly one base answer")
    | _, _ => finish s (.alloc p cls n 0 []) s.sizes s.px "" p "-"
  | ["dealloc", ps, tsize, talign, ns, ptr] =>
    let p := nat! ps
    let n := nat! ns
    let id := nat! ptr
    let cls := clsOf s (nat! tsize) (nat! talign)
    match livePool s.sys p, getPx s p with
    | some st, some x =>
      if n == 1 && cls == st.params then
        -- is the block one the pool handed out?  if not the abstract step reports the provenance error first
        let viaPool := s.sys.blocks.any (fun b => b.id == id && b.prov != .raw)
        if !viaPool then finish s (.dealloc p cls n id []) s.sizes s.px "ok " p "-"
        else
          match Momo.Pool.deallocate x.P x.pool (abs s id) with
          | .ok _ pool' evs =>
            let fr := freesOf s evs
            let s1 := setPx s p ⟨x.P, pool'⟩
            finish s (.dealloc p cls n id fr) (dropSizes s.sizes fr) s1.px "ok " p (evStr s evs)
          | .badAlloc _ _ => (s, "pool-model: bad_alloc in Deallocate")
          | .stuck w => ({ s with halted := true }, s!"STUCK {w}")
      else
        finish s (.dealloc p cls n id []) (dropSizes s.sizes [id]) s.px "ok " p s!"F{id}:{n * nat! tsize}"
    | _, _ => finish s (.dealloc p cls n id []) s.sizes s.px "ok " p "-"
  | ["anewfail", _, _] =>
    let sys' := fstep s.sys .newFail
    ({ s with sys := sys' }, s!"E:bad_alloc | - | {ledgerStr s sys' s.sizes}")
  | ["allocfail", ps, tsize, talign, ns] =>
    let p := nat! ps
    let n := nat! ns
    let cls := clsOf s (nat! tsize) (nat! talign)
    match livePool s.sys p, getPx s p with
    | some st, some x =>
      if n == 1 && (cls == st.params || st.allocCount == 0) then
        -- pool path: line 119 may have replaced the idle pool before `MemPool::Allocate` threw
        let reparam := cls != st.params
        let pre : Option (PoolX × List Momo.Pool.Ev) :=
          if reparam then
            match Momo.Pool.destroy x.P x.pool with
            | .ok _ _ evs => some (⟨mkParams s cls, Momo.Pool.Pool.empty⟩, evs)
            | _ => none
          else some (x, [])
        match pre with
        | none => ({ s with halted := true }, "STUCK ~MemPool of the replaced pool")
        | some (x1, evs0) =>
          -- C09's pool with a base allocator that throws: the request must really reach the base allocator
          match Momo.Pool.allocate x1.P x1.pool (fun _ => none) with
          | .badAlloc pool' evs1 =>
            let fr := freesOf s evs0
            let note := if !reparam || sameSet fr (heldOf s.sys p) then "" else " HELD-MISMATCH"
            let s1 := setPx s p ⟨x1.P, pool'⟩
            ffinish s (.allocFail p cls n) (dropSizes s.sizes fr) s1.px "E:bad_alloc " p (evStr s (evs0 ++ evs1)) note
          | .ok _ _ _ => ({ s with halted := true }, "MODEL: this allocate is served without the base allocator, it cannot throw")
          | .stuck w => ({ s with halted := true }, s!"STUCK {w}")
      else
        ffinish s (.allocFail p cls n) s.sizes s.px "E:bad_alloc " p "-"
    | _, _ => ffinish s (.allocFail p cls n) s.sizes s.px "" p "-"
  | ["ledger"] => (s, ledgerStr s s.sys s.sizes ++ " blocks=" ++ toString s.sys.blocks.length)
  | _ => (s, "bad-op")

/-! ### container level -/

def natList (t : String) : List Nat := if t == "-" || t == "" then [] else (t.splitOn ",").map nat!

def parseAct (s : St) (t : String) : Option Act :=
  if t.startsWith "+" then
    match (t.drop 1).toString.splitOn ":" with
    | [id, tsize, talign, n, ms] => some (.alloc (clsOf s (nat! tsize) (nat! talign)) (nat! n) (nat! id) (natList ms))
    | _ => none
  else if t.startsWith "-" then
    match (t.drop 1).toString.splitOn ":" with
    | [id, fs] => some (.free (nat! id) (natList fs))
    | _ => none
  else none

def parseActs (s : St) (ts : List String) : Option (List Act) := ts.mapM (parseAct s)

def parseFAct (s : St) (t : String) : Option FAct :=
  if t.startsWith "!" then
    match (t.drop 1).toString.splitOn ":" with
    | [tsize, talign, n] => some (.allocFail (clsOf s (nat! tsize) (nat! talign)) (nat! n))
    | _ => none
  else (parseAct s t).map .ok

def parseFActs (s : St) (ts : List String) : Option (List FAct) := ts.mapM (parseFAct s)

def insertSorted (x : Ent) : List Ent → List Ent
  | [] => [x]
  | y :: ys => if x.eid ≤ y.eid then x :: y :: ys else y :: insertSorted x ys

def contSummary (cs : CSys) : String :=
  let ents := cs.ents.foldl (fun acc e => insertSorted e acc) []
  let es := ents.map fun e =>
    let mine := cs.sys.blocks.filter (fun b => cs.own b.id == e.eid)
    s!"e{e.eid}:p{e.pid}:n{(mine.filter (·.n == 1)).length}:a{(mine.filter (·.n != 1)).length}"
  let ps := (List.range cs.sys.pools.length).map fun p => poolStr cs.sys p
  " ".intercalate es ++ " | " ++ " ; ".intercalate ps ++ s!" | L={cs.sys.base.length}"

def contFinish (s : St) (cs' : CSys) : St × String :=
  match cs'.sys.err with
  | some e => ({ s with cs := cs', halted := true }, s!"ERR {errStr e}")
  | none => ({ s with cs := cs' }, contSummary cs')

def contStep (s : St) (toks : List String) : St × String :=
  let go (op : Option COp) : St × String :=
    match op with
    | some op => contFinish s (cstep s.cs op)
    | none => (s, "bad-op")
  let goF (op : Option FCOp) : St × String :=
    match op with
    | some op => contFinish s (fcstep s.cs op)
    | none => (s, "bad-op")
  match toks with
  | ["newAlloc", e, tsize, talign, cb] => go (some (.newAlloc (nat! e) (clsOf s (nat! tsize) (nat! talign)) (nat! cb)))
  | ["newFrom", e, src] => go (some (.newFrom (nat! e) (nat! src)))
  | "mutate" :: e :: acts => go ((parseActs s acts).map (.mutate (nat! e)))
  | "copyAssign" :: d :: c :: acts => go ((parseActs s acts).map (.copyAssign (nat! d) (nat! c)))
  | "copyConstruct" :: d :: c :: tsize :: talign :: cb :: acts =>
      go ((parseActs s acts).map (.copyConstruct (nat! d) (nat! c) (clsOf s (nat! tsize) (nat! talign)) (nat! cb)))
  | ["moveConstruct", d, c] => go (some (.moveConstruct (nat! d) (nat! c)))
  | "moveAssign" :: d :: c :: acts => go ((parseActs s acts).map (.moveAssign (nat! d) (nat! c)))
  | ["swap", d, c] => go (some (.swap (nat! d) (nat! c)))
  | "splice" :: d :: c :: ids => go (some (.splice (nat! d) (nat! c) (ids.map nat!)))
  | "destroy" :: e :: acts => go ((parseActs s acts).map (.destroy (nat! e)))
  | ["newAllocFail", e, tsize, talign] => goF (some (.newAllocFail (nat! e) (clsOf s (nat! tsize) (nat! talign))))
  | "mutateF" :: e :: acts => goF ((parseFActs s acts).map (.mutateF (nat! e)))
  | "copyAssignF" :: d :: c :: acts => goF ((parseFActs s acts).map (.copyAssignF (nat! d) (nat! c)))
  | "copyConstructF" :: d :: c :: tsize :: talign :: cb :: acts =>
      goF ((parseFActs s acts).map (.copyConstructF (nat! d) (nat! c) (clsOf s (nat! tsize) (nat! talign)) (nat! cb)))
  | ["copyConstructNewFail", d, c, tsize, talign] =>
      goF (some (.copyConstructNewFail (nat! d) (nat! c) (clsOf s (nat! tsize) (nat! talign))))
  | _ => (s, "bad-op")

def step (s : St) (toks : List String) : St × String :=
  if s.halted then (s, "halted")
  else if s.trace then traceStep s toks
  else
    match toks with
    | "quiet" :: rest =>
      -- a line whose answer is not compared (the next line of the same container call carries it)
      let (s', out) := contStep s rest
      (s', if out.startsWith "ERR" || out == "bad-op" then out else "*")
    | _ => contStep s toks

def init (args : List String) : St :=
  { trace := kv args "mode" "trace" == "trace", N := nat! (kv args "N" "32"), C := nat! (kv args "C" "16"),
    cb := nat! (kv args "cb" "80"), arena := int! (kv args "arena" "0"), maxAlign := nat! (kv args "maxalign" "16") }

def engine : Engine := { σ := St, init := init, step := step }

end Driver.PoolAlloc
