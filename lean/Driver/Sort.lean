import Momo.Model.Sort
import Driver.Engine
/-!
  Line protocol of the C17 model (`model sort`).  Items are `(key, id)` pairs, equality compares keys,
  the hash of a key is a table entry (`hf tab …`) or one of the formula families (`hf fam k`) that the
  harness implements identically.  Answers: `E:model` when the model reports an out-of-range access /
  failed assertion / exhausted fuel (never on inputs the property speaks about).

    ms <h> <n>                 pvMultShift(h, n)
    sc <count>                 pvGetStepCount(count)
    hf tab <h0> <h1> …         hash of key k = h_k for k < table size, else family
    hf fam <k>                 formula family for the remaining keys
    set <p|h> <k0> <k1> …      current sequence := keys (ids = positions); h = prehashed (parallel hash array)
    gen <p|h> <n> <K> <seed>   current sequence := n keys below K from the shared LCG
    sort                       HashSorter::Sort / SortPrehashed on the current sequence; prints ids [| hashes] ; swaps chk
                               (swaps = number of iterSwapper calls, chk = order-sensitive checksum of their index pairs)
    sortsum                    same, prints `n chk(ids) chk(hashes)`
    is                         IsSorted / IsSortedPrehashed
    fd <key>                   Find / FindPrehashed            -> `<index> <found>`
    gb <key>                   GetBounds / GetBoundsPrehashed  -> `<begin> <end>`
    rs <R> <W> <c0> <c1> …     RadixSorter<R>::Sort on W-bit codes (items (code, position)); prints ids
    rgen <R> <W> <n> <seed> <bits>   same on n generated codes of `bits` significant bits; prints `n chk(ids)`
-/
open Momo.Sort
namespace Driver.Sort

def M64 : Nat := 18446744073709551616

def famHash (fam key : Nat) : Nat :=
  match fam with
  | 0 => 0x5555555555555555
  | 1 => if key % 2 == 0 then 1000 else 9223372036854775813
  | 2 => if key % 2 == 0 then 0 else M64 - 1
  | 3 => (key * 0x9E3779B97F4A7C15) % M64
  | 4 => key
  | 5 => (key % 3) * 4611686018427387904
  | 6 => M64 - 1 - key % 4
  | 7 => (key % 256) * 72057594037927936
  | 8 => ((key / 4) * 0x9E3779B97F4A7C15) % M64
  | _ => (key * 4294967296) % M64

structure St where
  tab : Array Nat := #[]
  fam : Nat := 0
  pre : Bool := false
  items : Array (Nat × Nat) := #[]
  hashes : Array Nat := #[]

def St.hash (st : St) (key : Nat) : Nat :=
  if h : key < st.tab.size then st.tab[key] else famHash st.fam key

def keyEq (a b : Nat × Nat) : Bool := a.1 == b.1

def lcgNext (x : Nat) : Nat := (x * 6364136223846793005 + 1442695040888963407) % M64

def genKeys (n K seed : Nat) : Array (Nat × Nat) := Id.run do
  let mut x := seed
  let mut out : Array (Nat × Nat) := Array.mkEmpty n
  for i in [0:n] do
    x := lcgNext x
    out := out.push ((x >>> 33) % K, i)
  return out

def genCodes (n seed bits : Nat) : Array (Nat × Nat) := Id.run do
  let mut x := seed
  let mut out : Array (Nat × Nat) := Array.mkEmpty n
  for i in [0:n] do
    x := lcgNext x
    let hi := x >>> 32
    x := lcgNext x
    let lo := x >>> 32
    out := out.push ((hi * 4294967296 + lo) % 2 ^ bits, i)
  return out

def chk (xs : Array Nat) : Nat := xs.foldl (fun c x => (c * 1000003 + x + 1) % M64) 0

def withKeys (st : St) (pre : Bool) (items : Array (Nat × Nat)) : St :=
  { st with pre := pre, items := items, hashes := if pre then items.map (fun it => st.hash it.1) else #[] }

/-- HashSorter::Sort / SortPrehashed on the current sequence; also returns the swap log (count, checksum) -/
def doSort (st : St) : Option (St × Nat × Nat) :=
  if st.pre then
    (hashSort (tracedMem (preMem (α := Nat × Nat))) keyEq ((st.items, st.hashes), 0, 0) st.items.size).map
      fun r => ({ st with items := r.1.1, hashes := r.1.2 }, r.2.1, r.2.2)
  else
    (hashSort (tracedMem (plainMem (fun it : Nat × Nat => st.hash it.1))) keyEq (st.items, 0, 0) st.items.size).map
      fun r => ({ st with items := r.1 }, r.2.1, r.2.2)

def doIsSorted (st : St) : Option Bool :=
  if st.pre then isSorted (preMem (α := Nat × Nat)) keyEq (st.items, st.hashes) st.items.size
  else isSorted (plainMem (fun it : Nat × Nat => st.hash it.1)) keyEq st.items st.items.size

def doFind (st : St) (key : Nat) : Option (Nat × Bool) :=
  if st.pre then find (preMem (α := Nat × Nat)) keyEq (st.items, st.hashes) st.items.size (key, 0) (st.hash key)
  else find (plainMem (fun it : Nat × Nat => st.hash it.1)) keyEq st.items st.items.size (key, 0) (st.hash key)

def doBounds (st : St) (key : Nat) : Option (Nat × Nat) :=
  if st.pre then getBounds (preMem (α := Nat × Nat)) keyEq (st.items, st.hashes) st.items.size (key, 0) (st.hash key)
  else getBounds (plainMem (fun it : Nat × Nat => st.hash it.1)) keyEq st.items st.items.size (key, 0) (st.hash key)

def doRadix (R W : Nat) (items : Array (Nat × Nat)) : Option (Array (Nat × Nat) × Nat × Nat) :=
  radixSorterSort (tracedMem (plainMem (fun it : Nat × Nat => it.1))) R W noGroupFn (items, 0, 0) items.size

def idsOf (items : Array (Nat × Nat)) : List Nat := items.toList.map (·.2)

def indexed (ks : List Nat) : Array (Nat × Nat) := Id.run do
  let mut out : Array (Nat × Nat) := Array.mkEmpty ks.length
  let mut i := 0
  for k in ks do
    out := out.push (k, i)
    i := i + 1
  return out

def step (st : St) : List String → St × String
  | ["ms", h, n] => (st, toString (multShift (nat! h) (nat! n)))
  | ["sc", n] => (st, toString (stepCount (nat! n)))
  | "hf" :: "tab" :: hs => ({ st with tab := (hs.map nat!).toArray }, "ok")
  | ["hf", "fam", k] => ({ st with fam := nat! k }, "ok")
  | "set" :: mode :: ks => (withKeys st (mode == "h") (indexed (ks.map nat!)), "ok")
  | ["gen", mode, n, K, seed] => (withKeys st (mode == "h") (genKeys (nat! n) (nat! K) (nat! seed)), "ok")
  | ["sort"] =>
      match doSort st with
      | some (st', n, k) =>
        (st', (if st'.pre then joinNat (idsOf st'.items) ++ " | " ++ joinNat st'.hashes.toList else joinNat (idsOf st'.items))
          ++ s!" ; {n} {k}")
      | none => (st, "E:model")
  | ["sortsum"] =>
      match doSort st with
      | some (st', n, k) => (st', s!"{st'.items.size} {chk (st'.items.map (·.2))} {chk st'.hashes} ; {n} {k}")
      | none => (st, "E:model")
  | ["is"] =>
      match doIsSorted st with
      | some b => (st, if b then "1" else "0")
      | none => (st, "E:model")
  | ["fd", key] =>
      match doFind st (nat! key) with
      | some r => (st, s!"{r.1} {if r.2 then 1 else 0}")
      | none => (st, "E:model")
  | ["gb", key] =>
      match doBounds st (nat! key) with
      | some r => (st, s!"{r.1} {r.2}")
      | none => (st, "E:model")
  | "rs" :: R :: W :: cs =>
      match doRadix (nat! R) (nat! W) (indexed (cs.map nat!)) with
      | some (r, n, k) => (st, joinNat (idsOf r) ++ s!" ; {n} {k}")
      | none => (st, "E:model")
  | ["rgen", R, W, n, seed, bits] =>
      match doRadix (nat! R) (nat! W) (genCodes (nat! n) (nat! seed) (nat! bits)) with
      | some (r, n, k) => (st, s!"{r.size} {chk (r.map (·.2))} ; {n} {k}")
      | none => (st, "E:model")
  | _ => (st, "bad-op")

def engine : Engine := { σ := St, init := fun _ => {}, step := step }

end Driver.Sort
