import Driver.Engine
import Driver.Probe
import Driver.Obj
import Driver.Rows
import Driver.HashMeta
import Driver.BTree
import Driver.BTreeFault
import Driver.Arr
import Driver.ArrFault
import Driver.SegFault
import Driver.Pool
import Driver.PoolAlloc
import Driver.PoolU32
import Driver.PoolWorld
import Driver.Columns
import Driver.HashTable
import Driver.Sort
import Driver.Seg
import Driver.Val
import Driver.Table
import Driver.TableIdx
import Driver.MMap
import Driver.StdWrap
import Driver.StdHist
import Driver.Ver
import Driver.Ledger
import Driver.HTLedger
import Driver.MMLedger
import Driver.OpenBytes
/-!
  momo_model: reads operation lines on stdin, prints one output line per operation.
  First line: `model <name> key=value …` selects the model. Lines starting with `#` are echoed.
-/
open Driver

def engines : List (String × Engine) := [
  ("ledger", Driver.Ledger.engine),
  ("htledger", Driver.HTLedger.engine),
  ("mmledger", Driver.MMLedger.engine),
  ("openbytes", Driver.OpenBytes.engine),
  ("stdwrap", Driver.StdWrap.engine),
  ("stdhist", Driver.StdHist.engine),
  ("ver", Driver.Ver.engine),
  ("probe", Driver.Probe.engine),
  ("obj", Driver.Obj.engine),
  ("rows", Driver.Rows.engine),
  ("hashmeta", Driver.HashMeta.engine),
  ("btree", Driver.BTree.engine),
  ("btreefault", Driver.BTreeFault.engine),
  ("arr", Driver.Arr.engine),
  ("arrfault", Driver.ArrFault.engine),
  ("segfault", Driver.SegFault.engine),
  ("pool", Driver.Pool.engine),
  ("poolalloc", Driver.PoolAlloc.engine),
  ("poolu32", Driver.PoolU32.engine),
  ("poolworld", Driver.PoolWorld.engine),
  ("columns", Driver.Columns.engine),
  ("hashtable", Driver.HashTable.engine),
  ("sort", Driver.Sort.engine),
  ("seg", Driver.Seg.engine),
  ("val", Driver.Val.engine),
  ("table", Driver.Table.engine),
  ("tableidx", Driver.TableIdx.engine),
  ("mmap", Driver.MMap.engine)
]

def tokens (line : String) : List String :=
  (line.trimAscii.toString.splitOn " ").filter (· ≠ "")

partial def loop (h : IO.FS.Stream) (out : IO.FS.Stream) (e : Engine) (s : e.σ) : IO Unit := do
  let line ← h.getLine
  if line.isEmpty then return ()
  let toks := tokens line
  match toks with
  | [] => loop h out e s
  | t :: _ =>
    if t.startsWith "#" then
      out.putStrLn line.trimAscii.toString
      loop h out e s
    else
      let (s', o) := e.step s toks
      out.putStrLn o
      loop h out e s'

def main : IO UInt32 := do
  let stdin ← IO.getStdin
  let stdout ← IO.getStdout
  let first ← stdin.getLine
  match tokens first with
  | "model" :: name :: args =>
    match engines.lookup name with
    | some e =>
      loop stdin stdout e (e.init args)
      return 0
    | none =>
      IO.eprintln s!"unknown model {name}"
      return 2
  | _ =>
    IO.eprintln "first line must be: model <name> [key=value …]"
    return 2
