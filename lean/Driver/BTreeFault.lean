import Momo.Model.BTreeFault
import Driver.Engine
/-!
  Line protocol of the fault-parametric B-tree model (C04 / C10, `harness/c04_treefault.cpp`).
  Header: `model btreefault cap=<n|default> step=<n> bg1=<0|1> lin=<0|1> multi=<0|1> reloc=<0|1> assign=<0|1> unsafe=<0|1>
           crew=<0|1> stateful=<0|1> bc1=<0|1>`.
  Items are `key:id` (the order looks at the key only). Every operation line ends with the fault it runs under:
  `-` (none) or `<kind>:<k>` = the k-th step of that kind *of this operation* throws (kinds `cmp alloc ctor repl filt`).
  Four container slots and one node handle; the ledger lives as long as the run.
-/
open Momo.BTree Momo.BTreeF
namespace Driver.BTreeFault

abbrev Item := Nat × Nat

def lt (a b : Item) : Bool := a.1 < b.1

structure St where
  cfg : Cfg
  ic : ICfg Item
  bc1 : Bool := true
  slots : Array (FTree Item) := #[{}, {}, {}, {}]
  ext : Option Item := none
  w : W := {}

def item! (s : String) : Item :=
  match s.splitOn ":" with
  | [k, i] => (nat! k, nat! i)
  | _ => (0, 0)

def showItem (x : Item) : String := s!"{x.1}:{x.2}"

def showItems (xs : List Item) : String :=
  if xs.isEmpty then "-" else " ".intercalate (xs.map showItem)

def showShape (cfg : Cfg) (ft : FTree Item) : String :=
  (match ft.tree.shape cfg with
   | none => "null"
   | some l => " ".intercalate (l.map (fun (b, c, k) => (if b then "L" else "I") ++ toString c ++ "/" ++ toString k)))
  ++ (if ft.params then " p=1" else " p=0")

def getSlot (s : St) (i : Nat) : FTree Item := s.slots.getD i {}

def setSlot (s : St) (i : Nat) (t : FTree Item) : St := { s with slots := s.slots.setIfInBounds i t }

def b2n (b : Bool) : Nat := if b then 1 else 0

/-- the schedule of one operation -/
def schedOf (tok : String) : Sched :=
  match tok.splitOn ":" with
  | [kind, k] =>
    let f : Nat → Bool := fun i => i == nat! k
    let z : Nat → Bool := fun _ => false
    { cmp := if kind == "cmp" then f else z, alloc := if kind == "alloc" then f else z,
      ctor := if kind == "ctor" then f else z, repl := if kind == "repl" then f else z,
      filt := if kind == "filt" then f else z }
  | _ => Sched.clean

/-- the counters restart with every operation, the ledger goes on -/
def fresh (w : W) : W := { led := w.led }

def showLed (s : St) : String :=
  let l := s.w.led
  s!"L={l.leaves} I={l.inners} items={l.items} aux={l.aux} params={l.params} crews={l.crews}" ++
    (if s.bc1 then s!" blocks={l.leaves + l.inners + l.aux + l.params + l.crews}" else "")

/-- release everything a container owns (destructor / Clear): nodes, items, params -/
def releaseAll (w : W) (ft : FTree Item) : W :=
  (((w.addLeaves (-(ft.leaves : Int))).addInners (-(ft.inners : Int))).addItems (-(ft.tree.toList.length : Int))).addParams
    (if ft.params then -1 else 0)

def step (s : St) : List String → St × String
  | ["ins", sl, k, id, f] =>
      let S := schedOf f
      let t := getSlot s (nat! sl)
      match insertF S s.ic s.cfg lt t (nat! k, nat! id) (copyCreator S) () (fresh s.w) with
      | (true, _, t', _, _, w') => ({ setSlot s (nat! sl) t' with w := w' }, s!"t=1 n={t'.tree.count}")
      | (false, _, t', p, i, w') =>
        ({ setSlot s (nat! sl) t' with w := w' }, s!"t=0 pos={t'.tree.idxOf p} ins={b2n i} n={t'.tree.count}")
  | ["add", sl, h, k, id, f] =>
      let S := schedOf f
      let t := getSlot s (nat! sl)
      match addF S s.ic s.cfg t (t.tree.posOfIdx (nat! h)) (nat! k, nat! id) (copyCreator S) () (fresh s.w) with
      | (true, _, t', _, w') => ({ setSlot s (nat! sl) t' with w := w' }, s!"t=1 n={t'.tree.count}")
      | (false, _, t', p, w') => ({ setSlot s (nat! sl) t' with w := w' }, s!"t=0 pos={t'.tree.idxOf p} n={t'.tree.count}")
  | ["remi", sl, i, f] =>
      let S := schedOf f
      let t := getSlot s (nat! sl)
      match removeF S s.ic s.cfg .destroy t (t.tree.posOfIdx (nat! i)) (fresh s.w) with
      | (true, t', _, w') => ({ setSlot s (nat! sl) t' with w := w' }, s!"t=1 n={t'.tree.count}")
      | (false, t', p, w') => ({ setSlot s (nat! sl) t' with w := w' }, s!"t=0 pos={t'.tree.idxOf p} n={t'.tree.count}")
  | ["remk", sl, k, f] =>
      -- `Remove(key)` for unique keys: lower bound, pvIsGreater, Remove(iter)
      let S := schedOf f
      let t := getSlot s (nat! sl)
      let key : Item := (nat! k, 0)
      match findPosF S s.cfg.linear (fun y => !lt y key) t.tree (fresh s.w) with
      | (none, w1) => ({ s with w := w1 }, s!"t=1 n={t.tree.count}")
      | (some lb, w1) =>
        match isGreaterF S lt t.tree lb key w1 with
        | (none, w2) => ({ s with w := w2 }, s!"t=1 n={t.tree.count}")
        | (some true, w2) => ({ s with w := w2 }, s!"t=0 removed=0 n={t.tree.count}")
        | (some false, w2) =>
          match removeF S s.ic s.cfg .destroy t lb w2 with
          | (true, t', _, w') => ({ setSlot s (nat! sl) t' with w := w' }, s!"t=1 n={t'.tree.count}")
          | (false, t', _, w') => ({ setSlot s (nat! sl) t' with w := w' }, s!"t=0 removed=1 n={t'.tree.count}")
  | ["ext", sl, i, f] =>
      let S := schedOf f
      let t := getSlot s (nat! sl)
      let p := t.tree.posOfIdx (nat! i)
      let x := t.tree.elemAt? p
      match removeF S s.ic s.cfg .extract t p (fresh s.w) with
      | (true, t', _, w') => ({ setSlot s (nat! sl) t' with w := w' }, s!"t=1 n={t'.tree.count}")
      | (false, t', q, w') =>
        ({ setSlot s (nat! sl) t' with w := w', ext := x },
          s!"t=0 pos={t'.tree.idxOf q} item={(x.map showItem).getD "?"} n={t'.tree.count}")
  | ["reins", sl, f] =>
      match s.ext with
      | none => (s, "no-item")
      | some x =>
        let S := schedOf f
        let t := getSlot s (nat! sl)
        match insertF S s.ic s.cfg lt t x (handleCreator S s.ic) () (fresh s.w) with
        | (true, _, t', _, _, w') => ({ setSlot s (nat! sl) t' with w := w' }, s!"t=1 n={t'.tree.count} held=1")
        | (false, _, t', p, i, w') =>
          ({ setSlot s (nat! sl) t' with w := w', ext := if i then none else some x },
            s!"t=0 pos={t'.tree.idxOf p} ins={b2n i} n={t'.tree.count} held={b2n (!i)}")
  | ["addext", sl, h, f] =>
      match s.ext with
      | none => (s, "no-item")
      | some x =>
        let S := schedOf f
        let t := getSlot s (nat! sl)
        match addF S s.ic s.cfg t (t.tree.posOfIdx (nat! h)) x (handleCreator S s.ic) () (fresh s.w) with
        | (true, _, t', _, w') => ({ setSlot s (nat! sl) t' with w := w' }, s!"t=1 n={t'.tree.count} held=1")
        | (false, _, t', p, w') =>
          ({ setSlot s (nat! sl) t' with w := w', ext := none }, s!"t=0 pos={t'.tree.idxOf p} n={t'.tree.count} held=0")
  | ["dropext"] =>
      match s.ext with
      | none => (s, "ok")
      | some _ => ({ s with ext := none, w := s.w.addItems (-1) }, "ok")
  | "insr" :: sl :: f :: items =>
      let S := schedOf f
      let t := getSlot s (nat! sl)
      match insertRangeF S s.ic s.cfg lt t (items.map item!) (fresh s.w) with
      | (th, t', w') => ({ setSlot s (nat! sl) t' with w := w' }, s!"t={b2n th} added={t'.tree.count - t.tree.count} n={t'.tree.count}")
  | ["remp", sl, m, r, f] =>
      let S := schedOf f
      let t := getSlot s (nat! sl)
      match removeIfF S s.ic s.cfg (fun x => x.1 % (nat! m) == nat! r) t (fresh s.w) with
      | (th, t', w') => ({ setSlot s (nat! sl) t' with w := w' }, s!"t={b2n th} removed={t.tree.count - t'.tree.count} n={t'.tree.count}")
  | ["merge", a, b, f] =>
      if nat! a == nat! b then (s, s!"t=0 n={(getSlot s (nat! a)).tree.count} {(getSlot s (nat! b)).tree.count}") else
      let S := schedOf f
      match mergeToF S s.ic s.cfg lt (getSlot s (nat! a)) (getSlot s (nat! b)) (fresh s.w) with
      | (th, src', dst', w') =>
        ({ setSlot (setSlot s (nat! a) src') (nat! b) dst' with w := w' }, s!"t={b2n th} n={src'.tree.count} {dst'.tree.count}")
  | ["copy", a, b, f] =>
      -- copy assignment `slots[b] = slots[a]`: `TreeSet(treeSet).Swap(*this)`, the old contents die with the temporary
      if nat! a == nat! b then (s, s!"t=0 n={(getSlot s (nat! b)).tree.count}") else
      let S := schedOf f
      match copyF S s.ic s.cfg (getSlot s (nat! a)) (fresh s.w) with
      | (true, _, w') => ({ s with w := w' }, s!"t=1 n={(getSlot s (nat! b)).tree.count}")
      | (false, t', w') =>
        ({ setSlot s (nat! b) t' with w := (releaseAll w' (getSlot s (nat! b))).addCrews (if s.ic.crewAlloc then -1 else 0) },
          s!"t=0 n={t'.tree.count}")
  | ["clear", sl] =>
      ({ setSlot s (nat! sl) {} with w := releaseAll s.w (getSlot s (nat! sl)) }, "ok")
  | ["fwd", sl] => (s, showItems (getSlot s (nat! sl)).tree.traverse)
  | ["shape", sl] => (s, showShape s.cfg (getSlot s (nat! sl)))
  | ["led"] => (s, showLed s)
  | ["ext?"] => (s, (s.ext.map showItem).getD "-")
  | _ => (s, "bad-op")

def init (args : List String) : St :=
  let lin := kv args "lin" "1" == "1"
  let multi := kv args "multi" "0" == "1"
  let cfg : Cfg :=
    if kv args "cap" "default" == "default" then Cfg.default lin multi
    else { maxCap := nat! (kv args "cap" "32"), step := nat! (kv args "step" "4"),
           blockGt1 := kv args "bg1" "1" == "1", linear := lin, multi := multi }
  let crew := kv args "crew" "1" == "1"
  { cfg := cfg,
    ic := { reloc := kv args "reloc" "1" == "1", assign := kv args "assign" "1" == "1",
            unsafeRepl := kv args "unsafe" "0" == "1", mix := fun src dst => (dst.1, src.2),
            crewAlloc := crew, statefulTraits := kv args "stateful" "0" == "1" },
    bc1 := kv args "bc1" "1" == "1",
    w := { led := { crews := if crew then 4 else 0 } } }

def engine : Engine := { σ := St, init := init, step := step }

end Driver.BTreeFault
