import Momo.Model.Ledger
import Driver.Engine
open Momo.Ledger
/-!
  Line protocol of the C03 ledger monitor.  Header: `model ledger`.
  One event per line; the answer is the monitor's verdict on that event:

    a <mgr> <blk> <size>     alloc        ->  ok | reject:<reason>
    d <mgr> <blk> <size>     dealloc
    c <eid>                  construct
    x <eid>                  destroy
    r <src> <dst>            relocate (no constructor / destructor runs)
    u <eid>                  use
    t <blk> <off> <len>      touch
    end                      ->  end blocks=<outstanding blocks> elems=<live elements> rejected=<n>; the state is reset

  A rejected event leaves the state unchanged (the harness's own ledger does the same), so that one history
  reports all its violations.
-/
namespace Driver.Ledger

structure DSt where
  s : St Nat := {}
  rejected : Nat := 0

def parse : List String → Option (Ev Nat)
  | ["a", m, b, n] => some (.alloc (nat! m) (nat! b) (nat! n))
  | ["d", m, b, n] => some (.dealloc (nat! m) (nat! b) (nat! n))
  | ["c", e] => some (.construct (nat! e))
  | ["x", e] => some (.destroy (nat! e))
  | ["r", a, d] => some (.relocate (nat! a) (nat! d))
  | ["u", e] => some (.use (nat! e))
  | ["t", b, off, len] => some (.touch (nat! b) (nat! off) (nat! len))
  | _ => none

def step (d : DSt) (toks : List String) : DSt × String :=
  match toks with
  | ["end"] =>
    let (nb, ne) := d.s.outstanding
    ({}, s!"end blocks={nb} elems={ne} rejected={d.rejected}")
  | _ =>
    match parse toks with
    | none => (d, "bad-op")
    | some ev =>
      match Momo.Ledger.step d.s ev with
      | .ok s1 => ({ d with s := s1 }, "ok")
      | .error why => ({ d with rejected := d.rejected + 1 }, "reject:" ++ why.text)

def engine : Engine := { σ := DSt, init := fun _ => {}, step := step }

end Driver.Ledger
