import Momo.Model.Probe
import Driver.Engine
open Momo.Probe
namespace Driver.Probe

structure St where
  mp2 : MP2 := MP2.init
  mp3 : Nat := 0

def seqList (quad : Bool) (L home count : Nat) : List Nat := Id.run do
  let mut idx := home
  let mut out := #[idx]
  for p in [1:count] do
    idx := if quad then nextQuad L idx p else nextLin L idx
    out := out.push idx
  return out.toList

def seqSummary (quad : Bool) (L home : Nat) : String := Id.run do
  let n := 2 ^ L
  let mut seen : Array Bool := Array.replicate n false
  let mut idx := home
  let mut chk : Nat := 0
  let mut distinct := 0
  for p in [0:n] do
    if p > 0 then idx := if quad then nextQuad L idx p else nextLin L idx
    chk := (chk * 1000003 + idx) % 18446744073709551616
    if idx < n && !seen[idx]! then
      seen := seen.set! idx true
      distinct := distinct + 1
  return s!"chk={chk} distinct={distinct}"

def step (s : St) : List String → St × String
  | ["mp2", "new"] => ({ s with mp2 := MP2.init }, "ok")
  | ["mp2", "upd", p] =>
      let t := s.mp2.upd (nat! p)
      ({ s with mp2 := t }, s!"{t.m} {t.e} {t.dec}")
  | ["mp3", "new"] => ({ s with mp3 := 0 }, "ok")
  | ["mp3", "upd", p, L] =>
      let b := upd3 s.mp3 (nat! p)
      ({ s with mp3 := b }, s!"{b} {getMax3 (nat! L) b}")
  | ["start", L, h] => (s, toString (start (nat! L) (nat! h)))
  | ["seq", kind, L, home, count] =>
      (s, joinNat (seqList (kind == "quad") (nat! L) (nat! home) (nat! count)))
  | ["seqall", kind, L, home] => (s, seqSummary (kind == "quad") (nat! L) (nat! home))
  | "add" :: kind :: L :: home :: full =>
      let fullSet := full.map nat!
      match addProbe (kind == "quad") (nat! L) (fun i => fullSet.contains i) (nat! home) with
      | some (p, idx) => (s, s!"{p} {idx}")
      | none => (s, "full")
  | _ => (s, "bad-op")

def engine : Engine := { σ := St, init := fun _ => {}, step := step }

end Driver.Probe
