import Momo.Model.Columns
import Driver.Engine
/-!
Line protocol of the `DataColumnList` model (property C18).  Header: `model columns L=<logVertexCount>
row=<0|1> bytes=<sizeof(ColumnCode)>`.  Several column lists live side by side under string ids.

    new <id>                                  -> ok
    copy <dst> <src>                          -> ok                 (copy constructor)
    add <id> <n|r|i> <code>:<size>:<align>:<mut> …   -> ok | E:logic | E:runtime | E:bad_alloc
    st <id>                                   -> p= ts= al= n= mc= fr=… cols=code:off,…
    ad <id> [full]                            -> nz=<non-zero addends> chk=<checksum> [v:addend …]
    has <id> <code> …                         -> per code `-` or the offset `Contains` reports
    off <id> <code> …                         -> per code `pvGetOffset`
    mut <id> <offset> …                       -> per offset 0/1     (IsMutable)
    vert <code> <param>                       -> v1 v2              (GetVertices)
    vertall <code>                            -> checksum of GetVertices over codeParam 0..255
    hash <byte> …                             -> StrHasher::GetHashCode64 of the string with these bytes
    create <id> <k|-1>                        -> events + ok|throw  (CreateRaw, k-th construction throws)
    import <dst> <src> <k|-1>                 -> events + ok|throw  (ImportRaw; src = dst means same list)
    destroy <id>                              -> events             (DestroyRaw)
-/
open Momo.Col
namespace Driver.Columns

structure St where
  cfg : Cfg
  lists : List (String × State)

def get (s : St) (id : String) : State := (s.lists.lookup id).getD (init s.cfg)

def put (s : St) (id : String) (x : State) : St :=
  { s with lists := (id, x) :: s.lists.filter (fun p => p.1 != id) }

def parseItem (t : String) : Item :=
  match t.splitOn ":" with
  | [c, sz, al, m] => { code := nat! c, size := nat! sz, align := nat! al, mutable := m == "1" }
  | _ => { code := 0, size := 1, align := 1 }

def showState (x : State) : String :=
  let fr := ",".intercalate (x.funcRecs.map (fun f => s!"{f.columnIndex}+{f.count}"))
  let cols := ",".intercalate (x.columns.map (fun r => s!"{r.code}:{r.offset}"))
  s!"p={x.codeParam} ts={x.totalSize} al={x.alignment} n={x.columns.length} mc={x.mutCount} fr={fr} cols={cols}"

def showAddends (x : State) (full : Bool) : String := Id.run do
  let mut nz := 0
  let mut chk : Nat := 0
  let mut out : Array String := #[]
  for v in [0:x.addends.size] do
    let a := x.addends.getD v 0
    if a != 0 then
      nz := nz + 1
      chk := (chk * 1000003 + v * 31 + a) % 18446744073709551616
      if full then out := out.push s!"{v}:{a}"
  let base := s!"nz={nz} chk={chk}"
  return if full then " ".intercalate (base :: out.toList) else base

def showEv : Ev → String
  | .create o => s!"C{o}"
  | .copy s o => s!"K{s}>{o}"
  | .destroy o => s!"D{o}"

def showEvents (r : List Ev × Bool) : String :=
  " ".intercalate (r.1.map showEv ++ [if r.2 then "ok" else "throw"])

def faultOf (k : String) : Option Nat := if k.startsWith "-" then none else some (nat! k)

def step (s : St) : List String → St × String
  | ["new", id] => (put s id (init s.cfg), "ok")
  | ["copy", dst, src] => (put s dst (get s src), "ok")
  | "add" :: id :: f :: items =>
      let fault := if f == "r" then Fault.reserve else if f == "i" then Fault.insert else Fault.none
      let (x, o) := add s.cfg (get s id) (items.map parseItem) fault
      (put s id x, match o with
        | .ok => "ok" | .tooMany => "E:logic" | .cannot => "E:runtime" | .badAlloc => "E:bad_alloc"
        | .unmodelled => "UNMODELLED")
  | ["st", id] => (s, showState (get s id))
  | ["ad", id] => (s, showAddends (get s id) false)
  | ["ad", id, "full"] => (s, showAddends (get s id) true)
  | "has" :: id :: codes =>
      (s, " ".intercalate (codes.map (fun t => match contains s.cfg (get s id) (nat! t) with
        | some o => toString o | none => "-")))
  | "off" :: id :: codes =>
      (s, joinNat (codes.map (fun t => getOffset s.cfg (get s id) (nat! t))))
  | "mut" :: id :: offs =>
      (s, " ".intercalate (offs.map (fun t => if isMutable (get s id) (nat! t) then "1" else "0")))
  | ["vert", code, param] =>
      let v := getVertices s.cfg (nat! code) (nat! param)
      (s, s!"{v.1} {v.2}")
  | ["vertall", code] =>
      (s, toString ((List.range 256).foldl (fun chk p =>
        let v := getVertices s.cfg (nat! code) p
        (chk * 1000003 + v.1 * 65536 + v.2) % 18446744073709551616) 0))
  | "hash" :: bytes => (s, toString (strHash (bytes.map nat!)))
  | ["create", id, k] => (s, showEvents (createRaw (get s id) .fresh (faultOf k)))
  | ["import", dst, src, k] =>
      let from_ := if dst == src then Src.same else Src.other s.cfg (get s src)
      (s, showEvents (createRaw (get s dst) from_ (faultOf k)))
  | ["destroy", id] => (s, " ".intercalate ((destroyRaw (get s id)).map showEv))
  | _ => (s, "bad-op")

def engine : Engine :=
  { σ := St
    init := fun args =>
      { cfg := { L := nat! (kv args "L" "8"), codeBytes := nat! (kv args "bytes" "8"),
                 rowNumber := kv args "row" "0" == "1" },
        lists := [] }
    step := step }

end Driver.Columns
