import Momo.Model.PoolWorld
import Driver.Engine
import Driver.Pool
open Momo.Pool
/-!
  Line protocol of the world of `MemPool` objects and memory managers (C09: Swap / move construction / move assignment).
  Header: `model poolworld arena=<absolute address of the arena>`.  Addresses are offsets from the arena start; every
  manager call is printed with the manager called (`M<off>:<size>@<mgr>`, `@-1` = a moved-from manager).

    new id S A N C mgr | alloc id base1 base2 | alloc id fail | free id blk | dall id | merge id1 id2 | swap id1 id2
    | mctor newId srcId | massign dstId srcId | destroy id
    | mergex id1 id2 (MergeFrom with CheckMode::exception: self = no-op, mismatch = E:invalid_argument, nothing changed)
    | dif id blk… | sizemax | params S A N (pvCheckParams of the constructor: ok | E:invalid_argument | E:length)
-/
namespace Driver.PoolWorld

structure St where
  arena : Int := 0
  objs : List (Nat × PoolObj) := []

def mgrStr (m : Option Nat) : String := match m with | some k => toString k | none => "-1"

def evStr (arena : Int) (m : Option Nat) (evs : List Ev) : String :=
  if evs.isEmpty then "-" else
  " ".intercalate (evs.map fun e => match e with
    | .malloc b s => s!"M{b - arena}:{s}@{mgrStr m}"
    | .free a s => s!"F{a - arena}:{s}@{mgrStr m}")

def digest (arena : Int) (o : PoolObj) : String :=
  s!"S={o.P.S} A={o.P.A} mgr={mgrStr o.mgr} {Driver.Pool.digest arena o.pool}"

def getObj (s : St) (id : Nat) : Option PoolObj := s.objs.lookup id
def setObj (s : St) (id : Nat) (o : PoolObj) : St := { s with objs := (id, o) :: s.objs.filter (fun e => e.1 != id) }

def finishOp {α : Type} (s : St) (id : Nat) (o : PoolObj) (r : Outcome α) (show_ : α → String) : St × String :=
  match r with
  | .ok v p evs => (setObj s id { o with pool := p }, s!"{show_ v} | {evStr s.arena o.mgr evs} | {digest s.arena { o with pool := p }}")
  | .badAlloc p evs => (setObj s id { o with pool := p }, s!"E:bad_alloc | {evStr s.arena o.mgr evs} | {digest s.arena { o with pool := p }}")
  | .stuck w => (s, s!"STUCK {w}")

def step (s : St) : List String → St × String
  | ["new", id, sS, sA, sN, sC, m] =>
      let P : Params := ⟨int! sS, int! sA, int! sN, nat! sC⟩
      let o : PoolObj := ⟨P, some (nat! m), Pool.empty⟩
      (setObj s (nat! id) o, s!"legal={Driver.Pool.b2s (decide P.Legal)} | {digest s.arena o}")
  | "alloc" :: id :: answers =>
      match getObj s (nat! id) with
      | none => (s, "bad-pool")
      | some o =>
        let orc : Oracle := match answers with
          | ["fail"] => fun _ => none
          | _ => fun k => (answers[k]?).map fun a => s.arena + int! a
        finishOp s (nat! id) o (allocate o.P o.pool orc) (fun b => toString (b - s.arena))
  | ["free", id, blk] =>
      match getObj s (nat! id) with
      | none => (s, "bad-pool")
      | some o => finishOp s (nat! id) o (deallocate o.P o.pool (s.arena + int! blk)) (fun _ => "ok")
  | ["dall", id] =>
      match getObj s (nat! id) with
      | none => (s, "bad-pool")
      | some o => finishOp s (nat! id) o (deallocateAll o.P o.pool) (fun _ => "ok")
  | ["merge", id1, id2] =>
      match getObj s (nat! id1), getObj s (nat! id2) with
      | some a, some b =>
        if a.P ≠ b.P ∨ a.mgr ≠ b.mgr then (s, "STUCK MergeFrom: check of sizes / IsEqual of the managers") else
        match mergeFrom a.P a.pool b.pool with
        | .ok b' a' evs =>
          (setObj (setObj s (nat! id1) { a with pool := a' }) (nat! id2) { b with pool := b' },
           s!"ok | {evStr s.arena a.mgr evs} | {digest s.arena { a with pool := a' }} || {digest s.arena { b with pool := b' }}")
        | .badAlloc _ _ => (s, "E:bad_alloc")
        | .stuck w => (s, s!"STUCK {w}")
      | _, _ => (s, "bad-pool")
  -- `MergeFrom` of pools whose `Settings::checkMode` is `CheckMode::exception` (383-390): merging a pool into itself
  -- returns at once; a difference in block size / alignment / count or managers that are not `IsEqual` make the
  -- `MOMO_CHECK`s throw `std::invalid_argument` before anything was touched; otherwise the merge of the model.
  -- (the cached-free-block count is not compared by the code; the harness keeps it equal)
  | ["mergex", id1, id2] =>
      match getObj s (nat! id1), getObj s (nat! id2) with
      | some a, some b =>
        if nat! id1 = nat! id2 then (s, s!"ok | - | {digest s.arena a} || {digest s.arena a}") else
        if a.P.S ≠ b.P.S ∨ a.P.A ≠ b.P.A ∨ a.P.N ≠ b.P.N ∨ a.mgr ≠ b.mgr then
          (s, s!"E:invalid_argument | - | {digest s.arena a} || {digest s.arena b}") else
        match mergeFrom a.P a.pool b.pool with
        | .ok b' a' evs =>
          (setObj (setObj s (nat! id1) { a with pool := a' }) (nat! id2) { b with pool := b' },
           s!"ok | {evStr s.arena a.mgr evs} | {digest s.arena { a with pool := a' }} || {digest s.arena { b with pool := b' }}")
        | .badAlloc _ _ => (s, "E:bad_alloc")
        | .stuck w => (s, s!"STUCK {w}")
      | _, _ => (s, "bad-pool")
  | "dif" :: id :: sel =>
      match getObj s (nat! id) with
      | none => (s, "bad-pool")
      | some o =>
        let chosen := sel.map fun a => s.arena + int! a
        finishOp s (nat! id) o (deallocateIf o.P o.pool (fun b => chosen.contains b)) (fun tr => "[" ++ Driver.Pool.relList s.arena tr ++ "]")
  | ["sizemax"] => (s, toString Driver.Pool.sizeMax)
  | ["params", sS, sA, sN] => (s, Driver.Pool.checkParams ⟨int! sS, int! sA, int! sN, 0⟩)
  | ["swap", id1, id2] =>
      match getObj s (nat! id1), getObj s (nat! id2) with
      | some a, some b =>
        let r := swapObjs a b
        (setObj (setObj s (nat! id1) r.1) (nat! id2) r.2, s!"ok | - | {digest s.arena r.1} || {digest s.arena r.2}")
      | _, _ => (s, "bad-pool")
  | ["mctor", idNew, idSrc] =>
      match getObj s (nat! idSrc) with
      | some a =>
        let r := moveCtor a
        (setObj (setObj s (nat! idNew) r.1) (nat! idSrc) r.2, s!"ok | - | {digest s.arena r.1} || {digest s.arena r.2}")
      | none => (s, "bad-pool")
  | ["massign", idDst, idSrc] =>
      match getObj s (nat! idDst), getObj s (nat! idSrc) with
      | some d, some a =>
        match moveAssign d a with
        | .ok d' a' mg evs =>
          (setObj (setObj s (nat! idDst) d') (nat! idSrc) a',
           s!"ok | {evStr s.arena mg evs} | {digest s.arena d'} || {digest s.arena a'}")
        | .stuck w => (s, s!"STUCK {w}")
      | _, _ => (s, "bad-pool")
  | ["destroy", id] =>
      match getObj s (nat! id) with
      | none => (s, "bad-pool")
      | some o =>
        match destroy o.P o.pool with
        | .ok _ p' evs =>
          ({ s with objs := s.objs.filter (fun e => e.1 != nat! id) },
           s!"ok | {evStr s.arena o.mgr evs} | store={p'.store.length} singles={p'.singles.length}")
        | .badAlloc _ _ => (s, "E:bad_alloc")
        | .stuck w => (s, s!"STUCK {w}")
  | _ => (s, "bad-op")

def engine : Engine :=
  { σ := St, init := fun args => { arena := int! (kv args "arena" "0") }, step := step }

end Driver.PoolWorld
