import Momo.Model.StdWrap
import Driver.Engine
open Momo.StdWrap
namespace Driver.StdWrap

/-- two containers of one kind (`set mset map mmap uset umap ummap vec`) and one node handle.
    Ordered kinds: `a`,`b` in tree order; unordered kinds: in no particular order (printed sorted);
    `vec`: the values are the keys of the items. -/
structure St where
  kind : String
  a : List Item := []
  b : List Item := []
  node : Option Item := none

def St.multi (s : St) : Bool := s.kind == "mset" || s.kind == "mmap" || s.kind == "ummap"
def St.isMap (s : St) : Bool := s.kind == "map" || s.kind == "mmap" || s.kind == "umap" || s.kind == "ummap"
def St.ord (s : St) : Bool := s.kind == "set" || s.kind == "mset" || s.kind == "map" || s.kind == "mmap"

def St.get (s : St) (c : String) : List Item := if c == "a" then s.a else s.b
def St.put (s : St) (c : String) (xs : List Item) : St := if c == "a" then { s with a := xs } else { s with b := xs }

def itemStr (e : Item) : String := s!"{e.1}:{e.2}"
def nodeStr : Option Item → String
  | none => "empty"
  | some e => itemStr e
def seqStr (xs : List Item) : String := s!"{xs.length}:" ++ String.join (xs.map (fun e => " " ++ itemStr e))
def itemLe (x y : Item) : Bool := x.1 < y.1 || (x.1 == y.1 && x.2 ≤ y.2)
def sorted (xs : List Item) : List Item := xs.mergeSort itemLe
def b01 (b : Bool) : String := if b then "1" else "0"
def rankStr (n r : Nat) : String := if r ≥ n then "end" else toString r

/-- lexicographic comparison of sequences, elements compared as (key, tag) pairs -/
def lexLt : List Item → List Item → Bool
  | _, [] => false
  | [], _ :: _ => true
  | x :: xs, y :: ys =>
    if x.1 < y.1 || (x.1 == y.1 && x.2 < y.2) then true
    else if y.1 < x.1 || (y.1 == x.1 && y.2 < x.2) then false
    else lexLt xs ys

def cmp6 (a b : List Item) : String :=
  let eq := a == b
  let lt := lexLt a b
  let gt := lexLt b a
  s!"{b01 eq} {b01 (!eq)} {b01 lt} {b01 (lt || eq)} {b01 gt} {b01 (gt || eq)}"

def parseItem (t : String) : Item :=
  match t.splitOn ":" with
  | [k, v] => (nat! k, nat! v)
  | _ => (0, 0)

def keysGrouped (xs : List Item) : Bool :=
  let ks := xs.map (·.1)
  -- every key change starts a key not seen before
  let rec go (seen : List Nat) (prev : Option Nat) : List Nat → Bool
    | [] => true
    | k :: t => if prev == some k then go seen prev t
                else if seen.contains k then false else go (k :: seen) (some k) t
  go [] none ks

def decStr (ers : List Nat) : Dec → String
  | .invalid => "E:invalid_argument"
  | _ => "erased" ++ String.join (ers.map (fun p => s!" {p}"))

def removeIdxs (xs : List Item) (ps : List Nat) : List Item :=
  (xs.zipIdx.filter (fun e => !ps.contains e.2)).map (·.1)

-- ---------------------------------------------------------------- ordered kinds
def stepOrd (s : St) : List String → St × String
  | [op, c, k, v] =>
    let xs := s.get c
    let x : Item := (nat! k, nat! v)
    if op == "ins" || op == "emp" then
      let r := if s.isMap then mapInsert s.multi xs none x else treeInsert s.multi xs x
      (s.put c r.1, s!"{r.2.1} {b01 r.2.2}")
    else if op == "try" then
      let r := mapInsert false xs none x
      (s.put c r.1, s!"{r.2.1} {b01 r.2.2}")
    else if op == "ioa" then
      let r := mapInsertOrAssign xs none x
      (s.put c r.1, s!"{r.2.1} {b01 r.2.2}")
    else if op == "idxw" then
      let r := mapInsertOrAssign xs none x
      (s.put c r.1, "ok")
    else if op == "erif" then
      let ys := xs.filter (fun e => e.1 % (nat! k) != nat! v)
      (s.put c ys, toString (xs.length - ys.length))
    else if op == "err" then
      (s.put c (xs.take (nat! k) ++ xs.drop (nat! v)), toString (nat! k))
    else (s, "bad-op")
  | [op, c, h, k, v] =>
    let xs := s.get c
    let x : Item := (nat! k, nat! v)
    let hh := nat! h
    if op == "insh" || op == "emph" then
      let r := if s.isMap then mapInsert s.multi xs (some hh) x else setInsertHint s.multi xs hh x
      (s.put c r.1, toString r.2.1)
    else if op == "tryh" then
      let r := mapInsert false xs (some hh) x
      (s.put c r.1, toString r.2.1)
    else if op == "ioah" then
      let r := mapInsertOrAssign xs (some hh) x
      (s.put c r.1, toString r.2.1)
    else (s, "bad-op")
  | [op, c, k] =>
    let xs := s.get c
    let kk := nat! k
    if op == "idxr" then
      let r := mapInsert false xs none (kk, 0)
      (s.put c r.1, toString (r.1[r.2.1]?.getD (0, 0)).2)
    else if op == "at" then
      (s, match mapAt xs kk with | none => "E:out_of_range" | some v => toString v)
    else if op == "find" then (s, rankStr xs.length (ordFind xs kk))
    else if op == "cnt" then (s, toString (ub kk xs - lb kk xs))
    else if op == "has" then (s, b01 (lb kk xs < ub kk xs))
    else if op == "lb" then (s, toString (lb kk xs))
    else if op == "ub" then (s, toString (ub kk xs))
    else if op == "eqr" then
      let r := ordEqualRange s.multi xs kk
      (s, s!"{r.1} {r.2}")
    else if op == "erk" then
      (s.put c (xs.take (lb kk xs) ++ xs.drop (ub kk xs)), toString (ub kk xs - lb kk xs))
    else if op == "erp" then (s.put c (xs.eraseIdx kk), toString kk)
    else if op == "exk" then
      let p := ordFind xs kk
      if p ≥ xs.length then ({ s with node := none }, "empty")
      else let e := xs[p]?.getD (0, 0); ({ (s.put c (xs.eraseIdx p)) with node := some e }, s!"{e.1} {e.2}")
    else if op == "exp" then
      let e := xs[kk]?.getD (0, 0)
      ({ (s.put c (xs.eraseIdx kk)) with node := some e }, s!"{e.1} {e.2}")
    else if op == "insnh" then
      let r := if s.isMap then mapInsertNodeHint s.multi xs kk s.node else setInsertNodeHint s.multi xs kk s.node
      ({ (s.put c r.1) with node := r.2.2 }, s!"{rankStr (r.1.length) r.2.1} {nodeStr r.2.2}")
    else (s, "bad-op")
  | [op, c] =>
    let xs := s.get c
    if op == "insn" then
      let r := insertNode s.multi xs s.node
      ({ (s.put c r.1) with node := r.2.2.2 }, s!"{rankStr r.1.length r.2.1} {b01 r.2.2.1} {nodeStr r.2.2.2}")
    else if op == "clear" then (s.put c [], "ok")
    else if op == "dump" then (s, seqStr xs)
    else if op == "size" then (s, toString xs.length)
    else (s, "bad-op")
  | ["merge"] =>
    -- a.merge(b): every item of b, in b's order, is offered to a; those not inserted stay in b
    let r := s.b.foldl (fun (acc : List Item × List Item) x =>
      let t := treeInsert s.multi acc.1 x
      if t.2.2 then (t.1, acc.2) else (acc.1, acc.2 ++ [x])) (s.a, [])
    ({ s with a := r.1, b := r.2 }, s!"{r.1.length} {r.2.length}")
  | ["swap"] => ({ s with a := s.b, b := s.a }, "ok")
  | ["copy"] => ({ s with a := s.b }, "ok")
  | ["move"] => ({ s with a := s.b, b := [] }, "ok")
  | ["cmp"] => (s, cmp6 s.a s.b)
  | ["dropnode"] => ({ s with node := none }, "ok")
  | _ => (s, "bad-op")

-- ---------------------------------------------------------------- unordered kinds
def uInsert (s : St) (xs : List Item) (x : Item) : List Item × Bool :=
  if s.multi then (xs ++ [x], true) else umapTryEmplace xs x.1 x.2

def splitBar (toks : List String) : List String × List String :=
  (toks.takeWhile (· != "|"), (toks.dropWhile (· != "|")).drop 1)

def stepUno (s : St) (toks : List String) : St × String :=
  let (hd, layoutToks) := splitBar toks
  match hd with
  | ["errange", c, fp, fm, lp, lm] =>
    let xs := s.get c
    let lay := layoutToks.map parseItem
    if sorted lay != sorted xs then (s, "layout-mismatch")
    else if !keysGrouped lay then (s, "not-grouped")
    else
      let first : It := ⟨nat! fp, fm == "1"⟩
      let last : It := ⟨nat! lp, lm == "1"⟩
      let ks := lay.map (·.1)
      let d := if s.kind == "ummap" then eraseRangeMM ks first last else eraseRangeU lay.length first last
      let ers := if s.kind == "ummap" then erasedMM ks d else erasedU lay.length d
      (s.put c (removeIdxs lay ers), decStr ers d)
  | ["erpos", c, p] =>
    let xs := s.get c
    let lay := layoutToks.map parseItem
    if sorted lay != sorted xs then (s, "layout-mismatch")
    else (s.put c (removeIdxs lay [nat! p]), s!"erased {nat! p}")
  | [op, c, k, v] =>
    let xs := s.get c
    let x : Item := (nat! k, nat! v)
    if op == "ins" || op == "emp" || op == "insh" || op == "emph" || op == "try" || op == "tryh" then
      let r := uInsert s xs x
      (s.put c r.1, b01 r.2)
    else if op == "ioa" || op == "ioah" then
      let r := umapInsertOrAssign xs x.1 x.2
      (s.put c r.1, b01 r.2)
    else if op == "idxw" then
      let r := umapInsertOrAssign xs x.1 x.2
      (s.put c r.1, "ok")
    else if op == "erif" then
      let ys := xs.filter (fun e => e.1 % (nat! k) != nat! v)
      (s.put c ys, toString (xs.length - ys.length))
    else (s, "bad-op")
  | [op, c, k] =>
    let xs := s.get c
    let kk := nat! k
    let vals := (xs.filter (fun e => e.1 == kk))
    if op == "idxr" then
      let r := umapTryEmplace xs kk 0
      (s.put c r.1, toString ((umapAt r.1 kk).getD 0))
    else if op == "at" then
      (s, match umapAt xs kk with | none => "E:out_of_range" | some v => toString v)
    else if op == "find" then
      (s, if s.kind == "ummap" then b01 (!vals.isEmpty)
          else match vals.head? with | none => "0" | some e => s!"1 {e.2}")
    else if op == "cnt" then (s, toString vals.length)
    else if op == "has" then (s, b01 (!vals.isEmpty))
    else if op == "eqr" then (s, seqStr (sorted vals))
    else if op == "erk" then (s.put c (xs.filter (fun e => e.1 != kk)), toString vals.length)
    else if op == "exk" then
      match vals.head? with
      | none => ({ s with node := none }, "empty")
      | some e => ({ (s.put c (xs.filter (fun e => e.1 != kk))) with node := some e }, s!"{e.1} {e.2}")
    else (s, "bad-op")
  | [op, c] =>
    let xs := s.get c
    if op == "insn" || op == "insnh" then
      match s.node with
      | none => (s, "0 empty")
      | some x =>
        let r := umapTryEmplace xs x.1 x.2
        -- insert(node): the element stays in the returned node when not inserted;
        -- insert(hint, node) = insert(node).position: the temporary result takes it away
        let left := if r.2 || op == "insnh" then none else some x
        ({ (s.put c r.1) with node := left }, s!"{b01 r.2} {nodeStr left}")
    else if op == "clear" then (s.put c [], "ok")
    else if op == "dump" then (s, seqStr (sorted xs))
    else if op == "size" then (s, toString xs.length)
    else (s, "bad-op")
  | ["merge"] =>
    let r := s.b.foldl (fun (acc : List Item × List Item) x =>
      let t := uInsert s acc.1 x
      if t.2 then (t.1, acc.2) else (acc.1, acc.2 ++ [x])) (s.a, [])
    ({ s with a := r.1, b := r.2 }, s!"{r.1.length} {r.2.length}")
  | ["swap"] => ({ s with a := s.b, b := s.a }, "ok")
  | ["copy"] => ({ s with a := s.b }, "ok")
  | ["move"] => ({ s with a := s.b, b := [] }, "ok")
  | ["cmp"] =>
    let eq := if s.kind == "ummap" then mmEq (groupOf s.a) (groupOf s.b) else usetEq s.a s.b
    (s, s!"{b01 eq} {b01 (!eq)}")
  | ["dropnode"] => ({ s with node := none }, "ok")
  | _ => (s, "bad-op")
where
  /-- the key ↦ value-array table of the model content (first-occurrence order of the keys) -/
  groupOf (xs : List Item) : MM :=
    let keys := xs.foldl (fun (acc : List Nat) e => if acc.contains e.1 then acc else acc ++ [e.1]) []
    keys.map (fun k => (k, (xs.filter (fun e => e.1 == k)).map (·.2)))

-- ---------------------------------------------------------------- vector
def stepVec (s : St) : List String → St × String
  | ["push", c, v] => let xs := s.get c ++ [(nat! v, 0)]; (s.put c xs, toString xs.length)
  | ["pop", c] => let xs := (s.get c).dropLast; (s.put c xs, toString xs.length)
  | ["ins", c, i, n, v] =>
    let xs := (vecInsert ((s.get c).map (·.1)) (nat! i) (nat! n) (nat! v)).map (fun x => (x, 0))
    (s.put c xs, toString (nat! i))
  | ["ers", c, i, j] =>
    let xs := (vecErase ((s.get c).map (·.1)) (nat! i) (nat! j)).map (fun x => (x, 0))
    (s.put c xs, toString (nat! i))
  | ["at", c, i] =>
    (s, match vecAt ((s.get c).map (·.1)) (nat! i) with | none => "E:out_of_range" | some v => toString v)
  | ["resize", c, n, v] =>
    let xs := s.get c
    let ys := if nat! n ≤ xs.length then xs.take (nat! n) else xs ++ List.replicate (nat! n - xs.length) (nat! v, 0)
    (s.put c ys, toString ys.length)
  | ["assign", c, n, v] => (s.put c (List.replicate (nat! n) (nat! v, 0)), toString (nat! n))
  | ["erval", c, v] =>
    let xs := s.get c
    let ys := xs.filter (fun e => e.1 != nat! v)
    (s.put c ys, toString (xs.length - ys.length))
  | ["clear", c] => (s.put c [], "ok")
  | ["dump", c] => let xs := s.get c; (s, s!"{xs.length}:" ++ String.join (xs.map (fun e => s!" {e.1}")))
  | ["size", c] => (s, toString (s.get c).length)
  | ["swap"] => ({ s with a := s.b, b := s.a }, "ok")
  | ["copy"] => ({ s with a := s.b }, "ok")
  | ["move"] => ({ s with a := s.b, b := [] }, "ok")
  | ["cmp"] => (s, cmp6 s.a s.b)
  | _ => (s, "bad-op")

def step (s : St) (toks : List String) : St × String :=
  if toks == ["reset"] then ({ kind := s.kind }, "ok")
  else if s.kind == "vec" then stepVec s toks
  else if s.ord then stepOrd s toks
  else stepUno s toks

def engine : Engine := { σ := St, init := fun args => { kind := kv args "kind" "set" }, step := step }

end Driver.StdWrap
