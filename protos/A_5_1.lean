-- prototype: one generation of a hash table — lookup = membership, removal (swap-with-last) keeps the invariant
structure Bucket (κ : Type) where
  items : List κ
  wasFull : Bool
  bound : Nat

variable {κ : Type} [DecidableEq κ]

def seq (next : Nat → Nat → Nat) (home : Nat) : Nat → Nat
  | 0 => home
  | p+1 => next (seq next home p) (p+1)

def emptyB : Bucket κ := ⟨[], false, 0⟩
def bkt (bs : List (Bucket κ)) (i : Nat) : Bucket κ := bs.getD i emptyB
def updB (bs : List (Bucket κ)) (i : Nat) (f : Bucket κ → Bucket κ) : List (Bucket κ) :=
  bs.set i (f (bkt bs i))

theorem bkt_updB (bs : List (Bucket κ)) (i j : Nat) (f : Bucket κ → Bucket κ) (hi : i < bs.length) :
    bkt (updB bs i f) j = if i = j then f (bkt bs j) else bkt bs j := by
  unfold updB bkt
  by_cases h : i = j
  · subst h; simp [hi]
  · simp [h, List.getD_eq_getElem?_getD, List.getElem?_set_ne h]

theorem bkt_mem_of_ge (bs : List (Bucket κ)) (i : Nat) (h : bs.length ≤ i) : (bkt bs i).items = [] := by
  unfold bkt; simp [List.getD_eq_getElem?_getD, List.getElem?_eq_none h, emptyB]

def findLoop (next : Nat → Nat → Nat) (bs : List (Bucket κ)) (k : κ) (maxProbe : Nat) :
    Nat → Nat → Nat → Bool
  | 0, _, _ => false
  | fuel+1, probe, idx =>
    if (bkt bs idx).wasFull && decide (probe ≤ maxProbe) then
      let idx' := next idx probe
      if k ∈ (bkt bs idx').items then true
      else findLoop next bs k maxProbe fuel (probe+1) idx'
    else false

def find (next : Nat → Nat → Nat) (bs : List (Bucket κ)) (home : Nat) (k : κ) : Bool :=
  if k ∈ (bkt bs home).items then true
  else findLoop next bs k (bkt bs home).bound ((bkt bs home).bound + 1) 1 home

structure Placed (maxCount : Nat) (next : Nat → Nat → Nat) (homeOf : κ → Nat)
    (bs : List (Bucket κ)) : Prop where
  size : ∀ i, (bkt bs i).items.length ≤ maxCount
  full : ∀ i, (bkt bs i).items.length = maxCount → (bkt bs i).wasFull = true
  place : ∀ i k, k ∈ (bkt bs i).items → ∃ p, i = seq next (homeOf k) p ∧
      p ≤ (bkt bs (homeOf k)).bound ∧ ∀ q, q < p → (bkt bs (seq next (homeOf k) q)).wasFull = true

theorem findLoop_complete (next : Nat → Nat → Nat) (bs : List (Bucket κ)) (k : κ) (home M p : Nat)
    (hk : k ∈ (bkt bs (seq next home p)).items) (hpM : p ≤ M)
    (hfull : ∀ q, q < p → (bkt bs (seq next home q)).wasFull = true) :
    ∀ (j fuel : Nat), j < p → p - j ≤ fuel →
      findLoop next bs k M fuel (j+1) (seq next home j) = true := by
  intro j fuel
  induction fuel generalizing j with
  | zero => intro hj hf; omega
  | succ f ih =>
    intro hj hf
    have hw := hfull j hj
    have hle : j + 1 ≤ M := by omega
    simp only [findLoop, hw, hle, decide_true, Bool.and_self, if_true]
    have hseq : next (seq next home j) (j+1) = seq next home (j+1) := rfl
    rw [hseq]
    by_cases hjp : j + 1 = p
    · subst hjp; simp [hk]
    · by_cases hmem : k ∈ (bkt bs (seq next home (j+1))).items
      · simp [hmem]
      · simp only [hmem, if_false]
        exact ih (j+1) (by omega) (by omega)

theorem findLoop_sound (next : Nat → Nat → Nat) (bs : List (Bucket κ)) (k : κ) (M : Nat) :
    ∀ fuel probe idx, findLoop next bs k M fuel probe idx = true → ∃ i, k ∈ (bkt bs i).items := by
  intro fuel
  induction fuel with
  | zero => intro _ _ h; simp [findLoop] at h
  | succ f ih =>
    intro probe idx h
    simp only [findLoop] at h
    split at h
    · split at h
      · exact ⟨_, ‹_›⟩
      · exact ih _ _ h
    · simp at h

/-- all keys stored in the generation -/
def keys (bs : List (Bucket κ)) : List κ := (bs.map (·.items)).flatten

theorem mem_keys_iff (bs : List (Bucket κ)) (k : κ) : k ∈ keys bs ↔ ∃ i, k ∈ (bkt bs i).items := by
  unfold keys
  simp only [List.mem_flatten, List.mem_map]
  constructor
  · rintro ⟨l, ⟨b, hb, rfl⟩, hk⟩
    obtain ⟨i, hi, rfl⟩ := List.getElem_of_mem hb
    exact ⟨i, by simpa [bkt, List.getD_eq_getElem?_getD, hi] using hk⟩
  · rintro ⟨i, hk⟩
    by_cases hi : i < bs.length
    · exact ⟨_, ⟨bs[i], List.getElem_mem hi, rfl⟩, by simpa [bkt, List.getD_eq_getElem?_getD, hi] using hk⟩
    · rw [bkt_mem_of_ge bs i (by omega)] at hk; simp at hk

/-- **lookup = membership** for a generation satisfying the placement invariant, for every probe step,
    every hash (through `homeOf`) and every bound encoder -/
theorem find_iff_mem (maxCount : Nat) (next : Nat → Nat → Nat) (homeOf : κ → Nat)
    (bs : List (Bucket κ)) (hP : Placed maxCount next homeOf bs) (k : κ) :
    find next bs (homeOf k) k = true ↔ k ∈ keys bs := by
  rw [mem_keys_iff]
  constructor
  · intro h
    unfold find at h
    split at h
    · exact ⟨_, ‹_›⟩
    · exact findLoop_sound next bs k _ _ _ _ h
  · rintro ⟨i, hk⟩
    obtain ⟨p, hi, hb, hq⟩ := hP.place i k hk
    subst hi
    unfold find
    by_cases h0 : k ∈ (bkt bs (homeOf k)).items
    · simp [h0]
    · simp only [h0, if_false]
      cases p with
      | zero => exact absurd hk h0
      | succ p' =>
        exact findLoop_complete next bs k (homeOf k) _ (p'+1) hk hb hq 0 _ (by omega) (by omega)

/-- `Bucket::Remove`: the last item is moved into the hole, flags and bound stay -/
def removeAt (j : Nat) (b : Bucket κ) : Bucket κ :=
  { b with items := match b.items.getLast? with
      | none => []
      | some l => (b.items.set j l).dropLast }

theorem mem_removeAt (b : Bucket κ) (j : Nat) (x : κ) (hx : x ∈ (removeAt j b).items) : x ∈ b.items := by
  unfold removeAt at hx
  simp only at hx
  cases hl : b.items.getLast? with
  | none => simp [hl] at hx
  | some l =>
    simp only [hl] at hx
    have h1 : x ∈ b.items.set j l := (List.dropLast_sublist _).subset hx
    rcases List.mem_or_eq_of_mem_set h1 with h2 | h2
    · exact h2
    · subst h2; exact List.mem_of_getLast? hl

theorem length_removeAt (b : Bucket κ) (j : Nat) : (removeAt j b).items.length = b.items.length - 1 := by
  unfold removeAt
  cases hl : b.items.getLast? with
  | none =>
    have : b.items = [] := by simpa using hl
    simp [this]
  | some l => simp

/-- removal keeps the placement invariant (nothing else moves; flags are sticky) -/
theorem remove_placed (maxCount : Nat) (next : Nat → Nat → Nat) (homeOf : κ → Nat)
    (bs : List (Bucket κ)) (i j : Nat) (hi : i < bs.length) (hpos : 0 < maxCount)
    (hP : Placed maxCount next homeOf bs) :
    Placed maxCount next homeOf (updB bs i (removeAt j)) := by
  have B : ∀ t, bkt (updB bs i (removeAt j)) t = if i = t then removeAt j (bkt bs t) else bkt bs t :=
    fun t => bkt_updB _ _ _ _ hi
  have hw : ∀ t, (bkt (updB bs i (removeAt j)) t).wasFull = (bkt bs t).wasFull := by
    intro t; rw [B]; by_cases h : i = t <;> simp [h, removeAt]
  have hb : ∀ t, (bkt (updB bs i (removeAt j)) t).bound = (bkt bs t).bound := by
    intro t; rw [B]; by_cases h : i = t <;> simp [h, removeAt]
  have hm : ∀ t x, x ∈ (bkt (updB bs i (removeAt j)) t).items → x ∈ (bkt bs t).items := by
    intro t x hx; rw [B] at hx
    by_cases h : i = t
    · simp only [h, if_true] at hx; exact mem_removeAt _ _ _ hx
    · simpa [h] using hx
  refine ⟨?_, ?_, ?_⟩
  · intro t; rw [B]
    by_cases h : i = t
    · simp only [h, if_true]; rw [length_removeAt]; have := hP.size t; omega
    · simp only [h, if_false]; exact hP.size t
  · intro t ht
    rw [hw]
    rw [B] at ht
    by_cases h : i = t
    · simp only [h, if_true] at ht; rw [length_removeAt] at ht
      have := hP.size t
      by_cases hz : (bkt bs t).items.length = 0
      · omega
      · exact hP.full t (by omega)
    · simp only [h, if_false] at ht; exact hP.full t ht
  · intro t x hx
    obtain ⟨p, e, hp, hq⟩ := hP.place t x (hm t x hx)
    exact ⟨p, e, by rw [hb]; exact hp, fun q hlt => by rw [hw]; exact hq q hlt⟩
#print axioms find_iff_mem
#print axioms remove_placed
