import Mathlib.Data.Nat.Prime.Basic
import Mathlib.Data.Fintype.Card
import Mathlib.Data.Fintype.EquivFin
import Mathlib.Data.Fintype.Fin
import Mathlib.Data.Nat.ModEq
import Mathlib.Tactic.Ring
import Mathlib.Tactic.Linarith
-- quadratic probing visits every bucket of a power-of-two table (C13/C11)
def tri (i : Nat) : Nat := i * (i + 1) / 2

theorem two_tri (i : Nat) : 2 * tri i = i * (i + 1) := by
  unfold tri
  have : 2 ∣ i * (i + 1) := by
    rcases Nat.even_or_odd i with h | h
    · exact Dvd.dvd.mul_right h.two_dvd _
    · have : Even (i+1) := h.add_one
      exact Dvd.dvd.mul_left this.two_dvd _
  omega

theorem tri_inj_mod (k i j : Nat) (hj : j < 2 ^ k) (hij : i < j)
    (h : tri i % 2 ^ k = tri j % 2 ^ k) : False := by
  have hle : tri i ≤ tri j := by
    have := two_tri i; have := two_tri j
    have : i * (i+1) ≤ j * (j+1) := Nat.mul_le_mul (by omega) (by omega)
    omega
  have hd : 2 ^ k ∣ tri j - tri i := by
    have := Nat.sub_mod_eq_zero_of_mod_eq h.symm
    exact Nat.dvd_of_mod_eq_zero this
  have hd2 : 2 ^ (k+1) ∣ (j - i) * (i + j + 1) := by
    have e : (j - i) * (i + j + 1) = 2 * (tri j - tri i) := by
      have h1 := two_tri i; have h2 := two_tri j
      obtain ⟨d, rfl⟩ : ∃ d, j = i + d := ⟨j - i, by omega⟩
      have : i + d - i = d := by omega
      rw [this, Nat.mul_sub, h1, h2]
      have : (i + d) * (i + d + 1) = i * (i + 1) + d * (i + (i + d) + 1) := by ring
      omega
    rw [e, Nat.pow_succ, Nat.mul_comm]
    exact Nat.mul_dvd_mul_left 2 hd
  rcases Nat.even_or_odd (j - i) with he | ho
  · have hodd : Odd (i + j + 1) := by
      have : i + j + 1 = (j - i) + (2 * i + 1) := by omega
      rw [this]; exact he.add_odd ⟨i, rfl⟩
    have hc : Nat.Coprime (2 ^ (k+1)) (i + j + 1) :=
      Nat.Coprime.pow_left _ (Nat.coprime_two_left.mpr hodd)
    have := hc.dvd_of_dvd_mul_right hd2
    have := Nat.le_of_dvd (by omega) this
    have : 2 ^ (k+1) = 2 * 2 ^ k := by rw [Nat.pow_succ, Nat.mul_comm]
    omega
  · have hc : Nat.Coprime (2 ^ (k+1)) (j - i) :=
      Nat.Coprime.pow_left _ (Nat.coprime_two_left.mpr ho)
    have := hc.dvd_of_dvd_mul_left hd2
    have := Nat.le_of_dvd (by omega) this
    have : 2 ^ (k+1) = 2 * 2 ^ k := by rw [Nat.pow_succ, Nat.mul_comm]
    omega

/-- the probe sequence of the source: idx₀ = home, idxₚ = (idxₚ₋₁ + p) mod n -/
def seqQ (n home : Nat) : Nat → Nat
  | 0 => home % n
  | p+1 => (seqQ n home p + (p+1)) % n

theorem seqQ_closed (n home p : Nat) : seqQ n home p = (home + tri p) % n := by
  induction p with
  | zero => simp [seqQ, tri]
  | succ q ih =>
    have ht : tri (q+1) = tri q + (q+1) := by
      have h1 := two_tri q; have h2 := two_tri (q+1)
      have : (q + 1) * (q + 1 + 1) = q * (q + 1) + 2 * (q + 1) := by ring
      omega
    simp only [seqQ, ih, ht]
    rw [Nat.mod_add_mod]; congr 1; omega

/-- every bucket is visited within the first 2^k probes -/
theorem seqQ_surj (k home b : Nat) (hb : b < 2^k) : ∃ p, p < 2^k ∧ seqQ (2^k) home p = b := by
  have hn : 0 < 2^k := Nat.two_pow_pos k
  let f : Fin (2^k) → Fin (2^k) := fun p => ⟨seqQ (2^k) home p.1, by
    rw [seqQ_closed]; exact Nat.mod_lt _ hn⟩
  have hinj : Function.Injective f := by
    intro x y hxy
    have hxy' : seqQ (2^k) home x.1 = seqQ (2^k) home y.1 := congrArg Fin.val hxy
    rw [seqQ_closed, seqQ_closed] at hxy'
    have ht : tri x.1 % 2^k = tri y.1 % 2^k := by
      have h1 : home + tri x.1 ≡ home + tri y.1 [MOD 2^k] := hxy'
      exact Nat.ModEq.add_left_cancel' home h1
    apply Fin.ext
    rcases Nat.lt_trichotomy x.1 y.1 with hlt | heq | hgt
    · exact (tri_inj_mod k x.1 y.1 y.2 hlt ht).elim
    · exact heq
    · exact (tri_inj_mod k y.1 x.1 x.2 hgt ht.symm).elim
  have hsurj : Function.Surjective f := Finite.surjective_of_injective hinj
  obtain ⟨p, hp⟩ := hsurj ⟨b, hb⟩
  exact ⟨p.1, p.2, congrArg Fin.val hp⟩
#print axioms seqQ_surj
