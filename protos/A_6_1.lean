inductive Node (α : Type) where
  | leaf (items : List α)
  | inner (items : List α) (children : List (Node α))

namespace Node
variable {α : Type}

mutual
  def toList : Node α → List α
    | leaf items => items
    | inner items children => interleave children items
  /-- c0 i0 c1 i1 ... c_{n} -/
  def interleave : List (Node α) → List α → List α
    | [], _ => []
    | c :: cs, [] => toList c ++ interleaveRest cs
    | c :: cs, i :: is => toList c ++ i :: interleave cs is
  def interleaveRest : List (Node α) → List α
    | [] => []
    | c :: cs => toList c ++ interleaveRest cs
end

mutual
  def depthOk : Nat → Node α → Bool
    | d, leaf _ => d == 0
    | d, inner items children => d != 0 && children.length == items.length + 1 && depthOkAll (d-1) children
  def depthOkAll : Nat → List (Node α) → Bool
    | _, [] => true
    | d, c :: cs => depthOk d c && depthOkAll d cs
end

-- sample: in-node lower bound (linear) and descent
def lowerIdx [Ord α] (items : List α) (k : α) : Nat :=
  (items.takeWhile (fun x => compare x k == .lt)).length

#eval toList (inner [10, 20] [leaf [1,2], leaf [11], leaf ([] : List Nat)])
#eval depthOk 1 (inner [10, 20] [leaf [1,2], leaf [11], leaf ([] : List Nat)])

theorem toList_leaf (xs : List α) : toList (leaf xs) = xs := by simp [toList]

-- merging two adjacent leaf children with the separator keeps the in-order list
theorem merge_leaves (a b : List α) (s : α) (is : List α) (cs : List (Node α)) :
    interleave (leaf a :: leaf b :: cs) (s :: is) = interleave (leaf (a ++ s :: b) :: cs) is := by
  cases is <;> cases cs <;> simp [interleave, toList, interleaveRest]
end Node
