-- MemPool::pvNewBuffer address arithmetic (continues E3): the four adjustment steps give a block
-- whose (index, buffer) satisfy BufOK, for every base address.
structure Par where
  A : Int
  k : Int      -- S = A * k
  N : Int
  hA : 0 < A
  hk : 2 ≤ k
  hN : 2 ≤ N

namespace Par
variable (p : Par)
def S : Int := p.A * p.k
def ceilA (x : Int) : Int := ((x + p.A - 1) / p.A) * p.A
def step2 (u : Int) : Int := u + (u % p.S) % (2 * p.A)
def step3 (u : Int) : Int := if (u + p.A) % p.S = 0 then u + p.A else u
def step4 (u : Int) : Int := if (u / p.S) % p.N = 0 then u + p.A else u
def firstBlock (base : Int) : Int := p.step4 (p.step3 (p.step2 (p.ceilA base)))

def dir (b : Int) : Int := ((b % p.S) / p.A) % 2
def idx (b : Int) : Int := (b / p.S) % p.N - (if p.dir b = 0 then p.N else 0)
def bufOf (b : Int) : Int := b - p.idx b * p.S - (if p.dir b = 1 then p.A else 0)

theorem S_pos : 0 < p.S := by unfold S; exact Int.mul_pos p.hA (by have := p.hk; omega)

/-- every multiple of A, reduced mod S, is `A * j` with `0 ≤ j < k` -/
theorem mod_S_of_mul (u : Int) (hu : u % p.A = 0) :
    ∃ j, 0 ≤ j ∧ j < p.k ∧ u % p.S = p.A * j := by
  have hA := p.hA; have hS := p.S_pos
  have h1 : p.A ∣ u := Int.dvd_of_emod_eq_zero hu
  have h2 : p.A ∣ p.S := ⟨p.k, rfl⟩
  have h3 : p.A ∣ u % p.S := by
    rw [Int.emod_def]
    exact Int.dvd_sub h1 (Int.dvd_trans h2 (Int.dvd_mul_right _ _))
  obtain ⟨j, hj⟩ := h3
  have hnn : 0 ≤ u % p.S := Int.emod_nonneg _ (by omega)
  have hlt : u % p.S < p.S := Int.emod_lt_of_pos _ hS
  refine ⟨j, ?_, ?_, hj⟩
  · apply Decidable.byContradiction; intro hneg
    have h5 : j ≤ -1 := by omega
    have h6 : p.A * j ≤ p.A * (-1) := Int.mul_le_mul_of_nonneg_left h5 (by omega)
    omega
  · apply Decidable.byContradiction; intro hge
    have h5 : p.k ≤ j := by omega
    have h6 : p.A * p.k ≤ p.A * j := Int.mul_le_mul_of_nonneg_left h5 (by omega)
    unfold S at hlt hj; omega

theorem ceilA_spec (x : Int) : p.ceilA x % p.A = 0 ∧ x ≤ p.ceilA x ∧ p.ceilA x < x + p.A := by
  have hA := p.hA
  unfold ceilA
  refine ⟨Int.mul_emod_left _ _, ?_, ?_⟩
  · have := Int.emod_add_mul_ediv (x + p.A - 1) p.A
    have h2 := Int.emod_lt_of_pos (x + p.A - 1) hA
    have h3 : (x + p.A - 1) / p.A * p.A = p.A * ((x + p.A - 1) / p.A) := Int.mul_comm _ _
    omega
  · have := Int.emod_add_mul_ediv (x + p.A - 1) p.A
    have h2 := Int.emod_nonneg (x + p.A - 1) (by omega : p.A ≠ 0)
    have h3 : (x + p.A - 1) / p.A * p.A = p.A * ((x + p.A - 1) / p.A) := Int.mul_comm _ _
    omega
end Par
#print axioms Par.mod_S_of_mul
#print axioms Par.ceilA_spec

namespace Par
variable (p : Par)

/-- canonical decomposition of an A-aligned address: u = S*q + A*j, 0 ≤ j < k -/
theorem decomp (u : Int) (hu : u % p.A = 0) :
    ∃ q j, 0 ≤ j ∧ j < p.k ∧ u = p.S * q + p.A * j ∧ u / p.S = q ∧ u % p.S = p.A * j := by
  obtain ⟨j, hj0, hjk, hj⟩ := p.mod_S_of_mul u hu
  refine ⟨u / p.S, j, hj0, hjk, ?_, rfl, hj⟩
  have := Int.emod_add_mul_ediv u p.S
  rw [hj] at this
  have h2 : p.S * (u / p.S) = p.S * (u / p.S) := rfl
  omega

/-- div/mod of a recomposed address -/
theorem recomp (q j : Int) (hj0 : 0 ≤ j) (hjk : j < p.k) :
    (p.S * q + p.A * j) / p.S = q ∧ (p.S * q + p.A * j) % p.S = p.A * j := by
  have hA := p.hA; have hS := p.S_pos
  have hlt : p.A * j < p.S := by
    unfold S; exact Int.mul_lt_mul_of_pos_left hjk hA
  have hnn : 0 ≤ p.A * j := Int.mul_nonneg (by omega) hj0
  have e : p.S * q + p.A * j = p.A * j + q * p.S := by rw [Int.mul_comm p.S q]; omega
  constructor
  · rw [e, Int.add_mul_ediv_right _ _ (by omega), Int.ediv_eq_zero_of_lt hnn hlt]; omega
  · rw [e, Int.add_mul_emod_self_right, Int.emod_eq_of_lt hnn hlt]

structure BufOK (buf : Int) : Prop where
  even : ((buf % p.S) / p.A) % 2 = 0
  room : buf % p.S + p.A < p.S
  aligned : buf % p.A = 0
  slot0 : (buf / p.S) % p.N = 0

theorem mulA_div (j : Int) : (p.A * j) / p.A = j := by
  have hA := p.hA
  rw [Int.mul_comm, Int.mul_ediv_cancel _ (by omega)]

theorem mulA_mod (j : Int) : (p.A * j) % p.A = 0 := Int.mul_emod_right _ _

/-- after steps 2 and 3 the address is `S*q + A*j` with `j` even and `j + 1 < k` -/
theorem steps23 (u0 : Int) (h0 : u0 % p.A = 0) :
    ∃ q j, 0 ≤ j ∧ j % 2 = 0 ∧ j + 1 < p.k ∧ p.step3 (p.step2 u0) = p.S * q + p.A * j ∧
      u0 ≤ p.step3 (p.step2 u0) ∧ p.step3 (p.step2 u0) ≤ u0 + (1 + p.k % 2) * p.A := by
  have hA := p.hA; have hk := p.hk; have hS := p.S_pos
  obtain ⟨q0, j0, hj0, hj0k, hu0, _, hm0⟩ := p.decomp u0 h0
  -- step 2
  have h2A : (p.A * j0) % (2 * p.A) = p.A * (j0 % 2) := by
    have : 2 * p.A = p.A * 2 := by omega
    rw [this, Int.mul_emod_mul_of_pos _ _ hA]
  have hs2 : p.step2 u0 = p.S * q0 + p.A * (j0 + j0 % 2) := by
    unfold step2; rw [hm0, h2A, hu0, Int.mul_add]; omega
  -- normalise: either j0 + j0%2 < k, or it equals k (wrap to next S block)
  have hcase : j0 + j0 % 2 < p.k ∨ j0 + j0 % 2 = p.k := by omega
  rcases hcase with hlt | heq
  · -- j1 = j0 + j0 % 2, even, < k
    have hj1 : 0 ≤ j0 + j0 % 2 := by omega
    obtain ⟨hd1, hm1⟩ := p.recomp q0 (j0 + j0 % 2) hj1 hlt
    by_cases h3 : j0 + j0 % 2 + 1 = p.k
    · -- step 3 fires: (u1 + A) % S = 0
      have hSk : p.S = p.A * p.k := rfl
      have hAk : p.A * p.k = p.A * (j0 + j0 % 2) + p.A := by
        rw [← h3, Int.mul_add p.A (j0 + j0 % 2) 1]; omega
      have hu1A : p.step2 u0 + p.A = p.S * (q0 + 1) + p.A * 0 := by
        rw [hs2, Int.mul_add p.S q0 1]; omega
      have hfire : (p.step2 u0 + p.A) % p.S = 0 := by
        rw [hu1A]; have := (p.recomp (q0+1) 0 (by omega) (by omega)).2; simpa using this
      refine ⟨q0 + 1, 0, by omega, by omega, by omega, ?_, ?_, ?_⟩
      · unfold step3; rw [if_pos hfire, hu1A]
      · unfold step3; rw [if_pos hfire, hs2, hu0]
        have : 0 ≤ p.A * (j0 % 2) := Int.mul_nonneg (by omega) (by omega)
        rw [Int.mul_add]; omega
      · unfold step3; rw [if_pos hfire, hs2, hu0, Int.mul_add]
        -- k = j1 + 1 with j1 even ⇒ k odd ⇒ k % 2 = 1
        have hkodd : p.k % 2 = 1 := by omega
        rw [hkodd]
        have hb : p.A * (j0 % 2) ≤ p.A * 1 := Int.mul_le_mul_of_nonneg_left (by omega) (by omega)
        have : (1 + 1) * p.A = p.A * 1 + p.A := by omega
        omega
    · have hnf : ¬ (p.step2 u0 + p.A) % p.S = 0 := by
        intro hz
        have hu1A : p.step2 u0 + p.A = p.S * q0 + p.A * (j0 + j0 % 2 + 1) := by
          rw [hs2, Int.mul_add p.A (j0 + j0 % 2) 1]; omega
        rw [hu1A, (p.recomp q0 (j0 + j0 % 2 + 1) (by omega) (by omega)).2] at hz
        have : 0 < p.A * (j0 + j0 % 2 + 1) := Int.mul_pos hA (by omega)
        omega
      refine ⟨q0, j0 + j0 % 2, by omega, by omega, by omega, ?_, ?_, ?_⟩
      · unfold step3; rw [if_neg hnf, hs2]
      · unfold step3; rw [if_neg hnf, hs2, hu0, Int.mul_add]
        have : 0 ≤ p.A * (j0 % 2) := Int.mul_nonneg (by omega) (by omega)
        omega
      · unfold step3; rw [if_neg hnf, hs2, hu0, Int.mul_add]
        have hb : p.A * (j0 % 2) ≤ p.A * 1 := Int.mul_le_mul_of_nonneg_left (by omega) (by omega)
        have hc : 0 ≤ (p.k % 2) * p.A := Int.mul_nonneg (by omega) (by omega)
        have : (1 + p.k % 2) * p.A = p.A * 1 + (p.k % 2) * p.A := by rw [Int.add_mul]; omega
        omega
  · -- wrap: u1 = S*(q0+1) + 0
    have hu1 : p.step2 u0 = p.S * (q0 + 1) + p.A * 0 := by
      rw [hs2, heq]; unfold S; rw [Int.mul_add]; omega
    have hnf : ¬ (p.step2 u0 + p.A) % p.S = 0 := by
      intro hz
      have hu1A : p.step2 u0 + p.A = p.S * (q0 + 1) + p.A * 1 := by rw [hu1]; omega
      rw [hu1A, (p.recomp (q0+1) 1 (by omega) (by omega)).2] at hz
      omega
    refine ⟨q0 + 1, 0, by omega, by omega, by omega, ?_, ?_, ?_⟩
    · unfold step3; rw [if_neg hnf, hu1]
    · unfold step3; rw [if_neg hnf, hs2, hu0, Int.mul_add]
      have : 0 ≤ p.A * (j0 % 2) := Int.mul_nonneg (by omega) (by omega)
      omega
    · unfold step3; rw [if_neg hnf, hs2, hu0, Int.mul_add]
      have hb : p.A * (j0 % 2) ≤ p.A * 1 := Int.mul_le_mul_of_nonneg_left (by omega) (by omega)
      have hc : 0 ≤ (p.k % 2) * p.A := Int.mul_nonneg (by omega) (by omega)
      have : (1 + p.k % 2) * p.A = p.A * 1 + (p.k % 2) * p.A := by rw [Int.add_mul]; omega
      omega
end Par
#print axioms Par.steps23

namespace Par
variable (p : Par)

def getBlock (buf i : Int) : Int := buf + i * p.S + (if 0 ≤ i then p.A else 0)

/-- `pvNewBuffer`: for every base address the first block is A-aligned, is `getBlock buf i0` for the
    `(i0, buf)` that `pvGetBlockIndex` computes, `-N < i0 ≤ 0`, `buf` satisfies `BufOK`,
    and the block starts at most `(3 + k%2)·A - 1` bytes after `base`. -/
theorem firstBlock_ok (base : Int) :
    let b := p.firstBlock base
    b % p.A = 0 ∧ -p.N < p.idx b ∧ p.idx b ≤ 0 ∧ p.BufOK (p.bufOf b) ∧
      p.getBlock (p.bufOf b) (p.idx b) = b ∧ base ≤ p.bufOf b + (if p.idx b = 0 then 0 else p.idx b * p.S) ∧
      base ≤ b ∧ b < base + (3 + p.k % 2) * p.A := by
  have hA := p.hA; have hk := p.hk; have hS := p.S_pos; have hN := p.hN
  obtain ⟨hc0, hc1, hc2⟩ := p.ceilA_spec base
  obtain ⟨q, j, hj0, hjev, hjk, hu2, hlo, hhi⟩ := p.steps23 (p.ceilA base) hc0
  have hSk : p.S = p.A * p.k := rfl
  obtain ⟨hd2, hm2⟩ := p.recomp q j hj0 (by omega)
  intro b
  have hb : b = p.step4 (p.step3 (p.step2 (p.ceilA base))) := rfl
  rw [hu2] at hb hlo hhi
  have hhi' : (1 + p.k % 2) * p.A + p.A + p.A = (3 + p.k % 2) * p.A := by
    rw [Int.add_mul, Int.add_mul]; omega
  by_cases h4 : q % p.N = 0
  · -- step 4 fires: b = u2 + A, index 0, buffer = u2
    have hb' : b = p.S * q + p.A * (j + 1) := by
      rw [hb]; unfold step4; rw [hd2, if_pos h4, Int.mul_add p.A j 1]; omega
    obtain ⟨hd3, hm3⟩ := p.recomp q (j + 1) (by omega) (by omega)
    have hdir : p.dir b = 1 := by
      unfold dir; rw [hb', hm3, p.mulA_div]; omega
    have hidx : p.idx b = 0 := by
      unfold idx; rw [hdir, hb', hd3, h4]; simp
    have hbuf : p.bufOf b = p.S * q + p.A * j := by
      unfold bufOf; rw [hidx, hdir, hb', Int.mul_add p.A j 1]; simp; omega
    have hAj : (p.A * (j + 1)) % p.A = 0 := p.mulA_mod _
    refine ⟨?_, by omega, by omega, ?_, ?_, ?_, ?_, ?_⟩
    · rw [hb', Int.add_emod, hAj, hSk, Int.mul_assoc, p.mulA_mod]; simp
    · rw [hbuf]
      refine ⟨?_, ?_, ?_, ?_⟩
      · rw [hm2, p.mulA_div]; exact hjev
      · rw [hm2, hSk]
        have : p.A * j + p.A = p.A * (j + 1) := by rw [Int.mul_add]; omega
        rw [this]; exact Int.mul_lt_mul_of_pos_left (by omega) hA
      · rw [Int.add_emod, p.mulA_mod, hSk, Int.mul_assoc, p.mulA_mod]; simp
      · rw [hd2]; exact h4
    · unfold getBlock; rw [hidx, hbuf, hb', Int.mul_add p.A j 1]; simp; omega
    · rw [hidx, hbuf]; simp; omega
    · rw [hb', Int.mul_add p.A j 1]; omega
    · rw [hb', Int.mul_add p.A j 1]; omega
  · -- step 4 does not fire: b = u2, negative index
    have hb' : b = p.S * q + p.A * j := by
      rw [hb]; unfold step4; rw [hd2, if_neg h4]
    have hdir : p.dir b = 0 := by
      unfold dir; rw [hb', hm2, p.mulA_div]; exact hjev
    have hmN0 : 0 ≤ q % p.N := Int.emod_nonneg _ (by omega)
    have hmN1 : q % p.N < p.N := Int.emod_lt_of_pos _ (by omega)
    have hidx : p.idx b = q % p.N - p.N := by
      unfold idx; rw [hdir, hb', hd2]; simp
    have hqN : q = p.N * (q / p.N) + q % p.N := by
      have := Int.emod_add_mul_ediv q p.N; omega
    -- buffer = S * (N * (q / N + 1)) + A * j
    have hbuf : p.bufOf b = p.S * (p.N * (q / p.N + 1)) + p.A * j := by
      unfold bufOf; rw [hidx, hdir, hb']; simp
      have e1 : p.S * (p.N * (q / p.N + 1)) = p.S * (p.N * (q / p.N)) + p.S * p.N := by
        rw [Int.mul_add p.N, Int.mul_one, Int.mul_add]
      have e2 : (q % p.N - p.N) * p.S = p.S * (q % p.N) - p.S * p.N := by
        rw [Int.sub_mul, Int.mul_comm (q % p.N), Int.mul_comm p.N]
      have e3 : p.S * q = p.S * (p.N * (q / p.N)) + p.S * (q % p.N) := by
        rw [← Int.mul_add]; congr 1
      rw [e1, e2]; omega
    obtain ⟨hd3, hm3⟩ := p.recomp (p.N * (q / p.N + 1)) j hj0 (by omega)
    refine ⟨?_, by omega, by omega, ?_, ?_, ?_, ?_, ?_⟩
    · rw [hb', Int.add_emod, p.mulA_mod, hSk, Int.mul_assoc, p.mulA_mod]; simp
    · rw [hbuf]
      refine ⟨?_, ?_, ?_, ?_⟩
      · rw [hm3, p.mulA_div]; exact hjev
      · rw [hm3, hSk]
        have : p.A * j + p.A = p.A * (j + 1) := by rw [Int.mul_add]; omega
        rw [this]; exact Int.mul_lt_mul_of_pos_left (by omega) hA
      · rw [Int.add_emod, p.mulA_mod, hSk, Int.mul_assoc, p.mulA_mod]; simp
      · rw [hd3]; exact Int.mul_emod_right _ _
    · unfold getBlock
      have hneg : ¬ (0 ≤ p.idx b) := by omega
      rw [if_neg hneg]
      unfold bufOf; rw [hdir]; simp
    · have hne : p.idx b ≠ 0 := by omega
      rw [if_neg hne]
      unfold bufOf; rw [hdir]; simp; omega
    · rw [hb']; omega
    · rw [hb']; omega
end Par
#print axioms Par.firstBlock_ok
