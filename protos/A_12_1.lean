-- LimP4: reconstruction of the hash bits from the stored byte (arithmetic form, see A.4 for bitwise = arithmetic)
def pshift (L : Nat) : Nat := (L + 6) % 8
def encA (h L p : Nat) : Nat := 128 + ((h / 2^L) % 2^(7 - pshift L)) * 2^(pshift L) + p

/-- `GetHashCodePart` without the short-hash bits: start index recovered by undoing the linear probe,
    plus the stored payload placed above bit L -/
def decLow (byte idx L : Nat) : Nat :=
  let s := pshift L
  let probe := byte % 2^s
  ((idx + 2^L - probe) % 2^L) + ((byte - 128) / 2^s) * 2^L

theorem pshift_lt (L : Nat) : pshift L < 8 := by unfold pshift; omega

/-- all bits below `L + 7 - s` are recovered exactly, for every hash, size and displacement -/
theorem decLow_eq (h L p : Nat) (hp : p < 2 ^ pshift L) (hpn : p < 2 ^ L) :
    decLow (encA h L p) ((h % 2^L + p) % 2^L) L = h % 2^(L + (7 - pshift L)) := by
  have hs := pshift_lt L
  unfold decLow encA
  generalize pshift L = s at *
  have h2s := Nat.two_pow_pos s
  have h2L := Nat.two_pow_pos L
  generalize hm : (h / 2^L) % 2^(7 - s) = m
  -- byte = 128 + m * 2^s + p
  have hbyte_mod : (128 + m * 2^s + p) % 2^s = p := by
    have e : 128 = 2^(7-s) * 2^s := by
      have h7 : 7 - s + s = 7 := by omega
      rw [← Nat.pow_add, h7]
    rw [e, ← Nat.add_mul, Nat.add_comm, Nat.add_mul_mod_self_right, Nat.mod_eq_of_lt hp]
  have hbyte_div : (128 + m * 2^s + p - 128) / 2^s = m := by
    have : 128 + m * 2^s + p - 128 = p + m * 2^s := by omega
    rw [this, Nat.add_mul_div_right _ _ h2s, Nat.div_eq_of_lt hp]; omega
  simp only [hbyte_mod, hbyte_div]
  -- start index: ((h % 2^L + p) % 2^L + 2^L - p) % 2^L = h % 2^L
  have hidx : ((h % 2^L + p) % 2^L + 2^L - p) % 2^L = h % 2^L := by
    have hr : h % 2^L < 2^L := Nat.mod_lt _ h2L
    generalize h % 2^L = r at *
    generalize 2^L = n at *
    by_cases hc : r + p < n
    · rw [Nat.mod_eq_of_lt hc]
      have : r + p + n - p = r + n := by omega
      rw [this, Nat.add_mod_right, Nat.mod_eq_of_lt hr]
    · have h1 : (r + p) % n = r + p - n := by
        rw [Nat.mod_eq_sub_mod (by omega), Nat.mod_eq_of_lt (by omega)]
      rw [h1]
      have : r + p - n + n - p = r := by omega
      rw [this, Nat.mod_eq_of_lt hr]
  rw [hidx, ← hm]
  -- h % 2^(L + t) = h % 2^L + ((h / 2^L) % 2^t) * 2^L
  rw [Nat.pow_add, Nat.mod_mul, Nat.mul_comm (2^L)]
#print axioms decLow_eq
