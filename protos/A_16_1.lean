-- prototype: pointer-level model of MemPool::MergeFrom's list surgery (C09, finding F2)
abbrev Buf := Nat
structure Lk where
  prev : Option Buf
  next : Option Buf
deriving DecidableEq, Repr

abbrev Heap := List (Buf × Lk)        -- association list: buffer ↦ its two link fields

def getL (h : Heap) (b : Buf) : Lk := (h.lookup b).getD ⟨none, none⟩
def setPrev (h : Heap) (b : Buf) (p : Option Buf) : Heap :=
  h.map (fun e => if e.1 = b then (e.1, { e.2 with prev := p }) else e)
def setNext (h : Heap) (b : Buf) (n : Option Buf) : Heap :=
  h.map (fun e => if e.1 = b then (e.1, { e.2 with next := n }) else e)

/-- first loop of MergeFrom: move every buffer in front of `otherHead` to just in front of `thisHead`.
    `fixed = false` is the source as it stands (links the neighbours to each other),
    `fixed = true` links them to the moved buffer. -/
def moveFull (fixed : Bool) (thisHead otherHead : Buf) : Nat → Heap → Heap
  | 0, h => h
  | fuel+1, h =>
    match (getL h otherHead).prev with
    | none => h
    | some buffer =>
      let prevBuffer := (getL h buffer).prev
      let h := match prevBuffer with | some pb => setNext h pb (some otherHead) | none => h
      let h := setPrev h otherHead prevBuffer
      let prevB := (getL h thisHead).prev
      let h := setPrev h buffer prevB
      let h := setNext h buffer (some thisHead)
      let tgt : Buf := if fixed then buffer else thisHead
      let h := match prevB with | some pb => setNext h pb (some tgt) | none => h
      let h := setPrev h thisHead (if fixed then some buffer else prevB)
      moveFull fixed thisHead otherHead fuel h

/-- second part: append the other list (from its head on) after the tail of this list -/
def lastOf : Nat → Heap → Buf → Buf
  | 0, _, b => b
  | fuel+1, h, b => match (getL h b).next with | none => b | some n => lastOf fuel h n

def mergeFrom (fixed : Bool) (thisHead otherHead : Buf) (h : Heap) : Heap :=
  let h := moveFull fixed thisHead otherHead h.length h
  let tail := lastOf h.length h thisHead
  let h := setNext h tail (some otherHead)
  setPrev h otherHead (some tail)

/-- walk backwards from the head to the first buffer, then forwards collecting all buffers -/
def firstOf : Nat → Heap → Buf → Buf
  | 0, _, b => b
  | fuel+1, h, b => match (getL h b).prev with | none => b | some p => firstOf fuel h p
def walk : Nat → Heap → Buf → List Buf
  | 0, _, _ => []
  | fuel+1, h, b => b :: (match (getL h b).next with | none => [] | some n => walk fuel h n)

/-- doubly linked and complete: the forward walk from the first buffer reaches every buffer once and
    every `prev` is the inverse of `next` -/
def wellFormed (h : Heap) (head : Buf) : Bool :=
  let w := walk (h.length + 1) h (firstOf h.length h head)
  decide (w.length = h.length) && w.all (fun b => h.any (fun e => e.1 = b)) && w.Nodup &&
  (w.zip w.tail).all (fun (a, b) => (getL h b).prev = some a && (getL h a).next = some b)

-- this pool: 10 (full) <-> 11 (head, has free blocks);  other pool: 20 (full) <-> 21 (full) <-> 22 (head)
def sample : Heap :=
  [(10, ⟨none, some 11⟩), (11, ⟨some 10, none⟩),
   (20, ⟨none, some 21⟩), (21, ⟨some 20, some 22⟩), (22, ⟨some 21, none⟩)]

#eval walk 10 (mergeFrom true 11 22 sample) 10
#eval walk 10 (mergeFrom false 11 22 sample) 10
example : wellFormed (mergeFrom true 11 22 sample) 11 = true := by decide
-- the source as it stands loses the moved full buffers 20 and 21 (finding F2)
example : wellFormed (mergeFrom false 11 22 sample) 11 = false := by decide
