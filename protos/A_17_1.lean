-- prototype: unsynchronized_pool_allocator's allocate/deallocate decision logic with provenance (C20, finding F13)
inductive Prov where | pool (params : Nat) | raw
deriving DecidableEq, Repr

structure PA where
  params : Nat                 -- current block parameters of the shared pool (size/alignment class)
  allocCount : Nat             -- pool's GetAllocateCount
  live : List (Nat × Nat × Prov)   -- block id, type params, where it came from
  nextId : Nat
  errors : List String         -- provenance violations observed at deallocate
deriving Repr

def PA.init (p : Nat) : PA := ⟨p, 0, [], 0, []⟩

/-- `allocate(1)` for a value type whose parameters are `tp` -/
def PA.alloc1 (s : PA) (tp : Nat) : PA :=
  let equal := tp == s.params
  let s := if !equal && s.allocCount == 0 then { s with params := tp } else s
  if tp == s.params then
    { s with allocCount := s.allocCount + 1, live := (s.nextId, tp, .pool tp) :: s.live, nextId := s.nextId + 1 }
  else
    { s with live := (s.nextId, tp, .raw) :: s.live, nextId := s.nextId + 1 }

/-- `deallocate(ptr, 1)`: goes to the pool iff the type's parameters equal the pool's *current* parameters -/
def PA.dealloc1 (s : PA) (id : Nat) : PA :=
  match s.live.find? (fun e => e.1 == id) with
  | none => { s with errors := "unknown block" :: s.errors }
  | some (_, tp, prov) =>
    let toPool := tp == s.params
    let ok := match prov with | .pool q => toPool && q == s.params | .raw => !toPool
    let s := { s with live := s.live.filter (fun e => e.1 != id) }
    let s := if toPool then { s with allocCount := s.allocCount - 1 } else s
    if ok then s else { s with errors := s!"block {id} from {repr prov} freed into {if toPool then "pool" else "raw"}" :: s.errors }

-- list node = params 24, set node = params 40, both containers share one allocator
def f13 : PA :=
  let s := PA.init 24
  let s := s.alloc1 24      -- l.push_back(1)        id 0, pool
  let s := s.alloc1 40      -- s.insert(1)           id 1, raw (pool busy, params differ)
  let s := s.dealloc1 0     -- l.clear()             pool idle
  let s := s.alloc1 40      -- s.insert(2)           id 2, pool re-parameterised to 40
  s.dealloc1 1              -- s.erase(1)            raw block handed to the pool
#eval f13.errors
example : f13.errors ≠ [] := by decide
