-- max-probe encoder of BucketOpen2N2 (mantissa 8 bit, exponent), unbounded Nat model
def shrinkLoop (lim : Nat) : Nat → Nat → Nat → Nat × Nat
  | 0, m, e => (m, e)
  | fuel+1, m, e => if m ≥ lim then shrinkLoop lim fuel (m / 2) (e + 1) else (m, e)

theorem shrinkLoop_spec (lim : Nat) (hl : 0 < lim) (fuel m e : Nat) (hf : m < 2 ^ fuel * lim) :
    let r := shrinkLoop lim fuel m e
    r.1 < lim ∧ e ≤ r.2 ∧ r.1 = m / 2 ^ (r.2 - e) := by
  induction fuel generalizing m e with
  | zero => simp [shrinkLoop] at *; omega
  | succ f ih =>
    simp only [shrinkLoop]
    split
    · have h2 : m / 2 < 2 ^ f * lim := by
        have : 2 ^ (f+1) * lim = 2 * (2 ^ f * lim) := by rw [Nat.pow_succ]; ac_rfl
        omega
      obtain ⟨a, b, c⟩ := ih (m / 2) (e + 1) h2
      refine ⟨a, by omega, ?_⟩
      rw [c]
      have : (shrinkLoop lim f (m / 2) (e + 1)).2 - e = ((shrinkLoop lim f (m / 2) (e + 1)).2 - (e+1)) + 1 := by omega
      rw [this, Nat.pow_succ, Nat.div_div_eq_div_mul, Nat.mul_comm]
    · simp; omega

theorem enc_ge (p : Nat) (hp : 0 < p) (fuel : Nat) (hf : p - 1 < 2 ^ fuel * 255) :
    let r := shrinkLoop 255 fuel (p - 1) 0
    p ≤ (r.1 + 1) * 2 ^ r.2 := by
  obtain ⟨a, _, c⟩ := shrinkLoop_spec 255 (by decide) fuel (p-1) 0 hf
  simp only [Nat.sub_zero] at c
  intro r
  have hr : r.1 = (p - 1) / 2 ^ r.2 := c
  have := Nat.lt_mul_div_succ (p - 1) (Nat.two_pow_pos r.2)
  rw [hr]
  have h3 : 2 ^ r.2 * ((p - 1) / 2 ^ r.2 + 1) = ((p - 1) / 2 ^ r.2 + 1) * 2 ^ r.2 := Nat.mul_comm _ _
  omega
#print axioms enc_ge
