-- prototype: ArrayShifter::InsertNogrow(array, index, count, item) with moved-from cells (C05, finding F3)
inductive Cell (α : Type) where
  | live (v : α)
  | moved            -- moved-from or self-move-assigned: value unspecified
deriving DecidableEq, Repr

variable {α : Type}

abbrev Arr (α : Type) := List (Cell α)
def cellAt (a : Arr α) (i : Nat) : Cell α := a.getD i .moved

/-- `ItemTraits::Assign(std::move(array[src]), array[dst])`; a self-move leaves an unspecified value -/
def assignMove (a : Arr α) (src dst : Nat) : Arr α :=
  if src = dst then a.set dst .moved
  else (a.set dst (cellAt a src)).set src .moved

/-- `array.AddBackNogrow(std::move(array[src]))` -/
def addBackMove (a : Arr α) (src : Nat) : Arr α := (a ++ [cellAt a src]).set src .moved

def assignItem (a : Arr α) (dst : Nat) (x : α) : Arr α := a.set dst (.live x)

/-- first loop: `for (i = n - count; i < n; ++i) AddBackNogrow(std::move(array[i]))` -/
def loop1 (a : Arr α) (i : Nat) : Nat → Arr α
  | 0 => a
  | c+1 => loop1 (addBackMove a i) (i+1) c
/-- second loop: `for (i = n - count; i > index; --i) Assign(std::move(array[i-1]), array[i+count-1])` -/
def loop2 (a : Arr α) (count : Nat) (i : Nat) : Nat → Arr α     -- fuel = i - index
  | 0 => a
  | f+1 => loop2 (assignMove a (i-1) (i+count-1)) count (i-1) f
def loop3 (a : Arr α) (x : α) (i : Nat) : Nat → Arr α
  | 0 => a
  | c+1 => loop3 (assignItem a i x) x (i+1) c

def insertNogrow1 (a : Arr α) (index count : Nat) (x : α) : Arr α :=
  let n := a.length
  let a1 := loop1 a (n - count) count
  let a2 := loop2 a1 count (n - count) (n - count - index)
  loop3 a2 x index count

-- the finding, as a theorem about the model: a zero-length insert in the middle destroys the tail
example : insertNogrow1 [Cell.live 1, .live 2, .live 3] 1 0 9 = [.live 1, .moved, .moved] := by decide
-- and the ordinary case
example : insertNogrow1 [Cell.live 1, .live 2, .live 3, .live 4] 1 2 9
    = [.live 1, .live 9, .live 9, .live 2, .live 3, .live 4] := by decide

/-- specification on values -/
def specInsert (v : List α) (index count : Nat) (x : α) : List α :=
  v.take index ++ List.replicate count x ++ v.drop index
