-- prototype: pvAddNogrow on one generation preserves the placement invariant
structure Bucket (κ : Type) where
  items : List κ
  wasFull : Bool
  bound : Nat

variable {κ : Type}

def seq (next : Nat → Nat → Nat) (home : Nat) : Nat → Nat
  | 0 => home
  | p+1 => next (seq next home p) (p+1)

def emptyB : Bucket κ := ⟨[], false, 0⟩
def bkt (bs : List (Bucket κ)) (i : Nat) : Bucket κ := bs.getD i emptyB
def updB (bs : List (Bucket κ)) (i : Nat) (f : Bucket κ → Bucket κ) : List (Bucket κ) :=
  bs.set i (f (bkt bs i))

theorem updB_length (bs : List (Bucket κ)) (i : Nat) (f) : (updB bs i f).length = bs.length := by
  simp [updB]

theorem bkt_updB (bs : List (Bucket κ)) (i j : Nat) (f : Bucket κ → Bucket κ) (hi : i < bs.length) :
    bkt (updB bs i f) j = if i = j then f (bkt bs j) else bkt bs j := by
  unfold updB bkt
  by_cases h : i = j
  · subst h; simp [hi]
  · simp [h, List.getD_eq_getElem?_getD, List.getElem?_set_ne h]

def findSlot (maxCount n : Nat) (next : Nat → Nat → Nat) (bs : List (Bucket κ)) :
    Nat → Nat → Nat → Option (Nat × Nat)
  | 0, _, _ => none
  | fuel+1, probe, idx =>
    if (bkt bs idx).items.length < maxCount then some (probe, idx)
    else if probe + 1 ≥ n then none
    else findSlot maxCount n next bs fuel (probe+1) (next idx (probe+1))

def push (maxCount : Nat) (k : κ) (b : Bucket κ) : Bucket κ :=
  { b with items := b.items ++ [k], wasFull := b.wasFull || decide (b.items.length + 1 = maxCount) }
def raise (roundUp : Nat → Nat) (p : Nat) (b : Bucket κ) : Bucket κ :=
  { b with bound := if p ≤ b.bound then b.bound else roundUp p }

def addNogrow (maxCount n : Nat) (next : Nat → Nat → Nat) (roundUp : Nat → Nat)
    (bs : List (Bucket κ)) (home : Nat) (k : κ) : Option (List (Bucket κ)) :=
  match findSlot maxCount n next bs n 0 home with
  | none => none
  | some (p, idx) => some (updB (updB bs idx (push maxCount k)) home (raise roundUp p))

theorem findSlot_spec (maxCount n : Nat) (next : Nat → Nat → Nat) (bs : List (Bucket κ)) (home : Nat) :
    ∀ fuel j p idx, findSlot maxCount n next bs fuel j (seq next home j) = some (p, idx) →
      idx = seq next home p ∧ j ≤ p ∧ (bkt bs idx).items.length < maxCount ∧
      ∀ q, j ≤ q → q < p → ¬ (bkt bs (seq next home q)).items.length < maxCount := by
  intro fuel
  induction fuel with
  | zero => intro j p idx h; simp [findSlot] at h
  | succ f ih =>
    intro j p idx h
    simp only [findSlot] at h
    split at h
    · rename_i hlt
      simp only [Option.some.injEq, Prod.mk.injEq] at h
      obtain ⟨rfl, rfl⟩ := h
      exact ⟨rfl, Nat.le_refl _, hlt, fun q h1 h2 => by omega⟩
    · rename_i hfull
      split at h
      · simp at h
      · have hseq : next (seq next home j) (j+1) = seq next home (j+1) := rfl
        rw [hseq] at h
        obtain ⟨e, hle, hl, hall⟩ := ih (j+1) p idx h
        refine ⟨e, by omega, hl, ?_⟩
        intro q h1 h2
        by_cases hq : q = j
        · subst hq; exact hfull
        · exact hall q (by omega) h2

structure Placed (maxCount : Nat) (next : Nat → Nat → Nat) (homeOf : κ → Nat)
    (bs : List (Bucket κ)) : Prop where
  size : ∀ i, (bkt bs i).items.length ≤ maxCount
  full : ∀ i, (bkt bs i).items.length = maxCount → (bkt bs i).wasFull = true
  place : ∀ i k, k ∈ (bkt bs i).items → ∃ p, i = seq next (homeOf k) p ∧
      p ≤ (bkt bs (homeOf k)).bound ∧ ∀ q, q < p → (bkt bs (seq next (homeOf k) q)).wasFull = true

/-- raising flags/bounds never hurts -/
theorem Placed.mono {maxCount next homeOf} {bs bs' : List (Bucket κ)}
    (h : Placed maxCount next homeOf bs)
    (hitems : ∀ i, (bkt bs' i).items = (bkt bs i).items)
    (hw : ∀ i, (bkt bs i).wasFull = true → (bkt bs' i).wasFull = true)
    (hb : ∀ i, (bkt bs i).bound ≤ (bkt bs' i).bound) : Placed maxCount next homeOf bs' where
  size i := by rw [hitems]; exact h.size i
  full i hi := by rw [hitems] at hi; exact hw i (h.full i hi)
  place i k hk := by
    rw [hitems] at hk
    obtain ⟨p, e, hp, hq⟩ := h.place i k hk
    exact ⟨p, e, Nat.le_trans hp (hb _), fun q hlt => hw _ (hq q hlt)⟩

theorem addNogrow_placed (maxCount n : Nat) (next : Nat → Nat → Nat) (roundUp : Nat → Nat)
    (hr : ∀ p, p ≤ roundUp p) (homeOf : κ → Nat) (bs bs' : List (Bucket κ)) (k : κ)
    (hlen : ∀ i, i < n → i < bs.length) (hseqlt : ∀ h p, h < n → seq next h p < n)
    (hhome : homeOf k < n)
    (hP : Placed maxCount next homeOf bs)
    (hadd : addNogrow maxCount n next roundUp bs (homeOf k) k = some bs') :
    Placed maxCount next homeOf bs' := by
  unfold addNogrow at hadd
  split at hadd
  · simp at hadd
  · rename_i p idx hfs
    obtain ⟨hidx, _, hroom, hfull⟩ := findSlot_spec maxCount n next bs (homeOf k) n 0 p idx hfs
    simp only [Option.some.injEq] at hadd
    subst hadd
    have hidxlt : idx < bs.length := by rw [hidx]; exact hlen _ (hseqlt _ _ hhome)
    have hhomelt : homeOf k < (updB bs idx (push maxCount k)).length := by
      rw [updB_length]; exact hlen _ hhome
    -- state after the push
    have B1 : ∀ i, bkt (updB bs idx (push maxCount k)) i
        = if idx = i then push maxCount k (bkt bs i) else bkt bs i := fun i => bkt_updB _ _ _ _ hidxlt
    -- state after the raise
    have B2 : ∀ i, bkt (updB (updB bs idx (push maxCount k)) (homeOf k) (raise roundUp p)) i
        = if homeOf k = i then raise roundUp p (bkt (updB bs idx (push maxCount k)) i)
          else bkt (updB bs idx (push maxCount k)) i := fun i => bkt_updB _ _ _ _ hhomelt
    -- step 1: Placed after the push, except that the new item's bound may be too small; we prove the
    -- final statement directly instead
    have items2 : ∀ i, (bkt (updB (updB bs idx (push maxCount k)) (homeOf k) (raise roundUp p)) i).items
        = if idx = i then (bkt bs i).items ++ [k] else (bkt bs i).items := by
      intro i; rw [B2, B1]
      by_cases h1 : homeOf k = i <;> by_cases h2 : idx = i <;> simp [h1, h2, raise, push]
    have wf2 : ∀ i, (bkt bs i).wasFull = true →
        (bkt (updB (updB bs idx (push maxCount k)) (homeOf k) (raise roundUp p)) i).wasFull = true := by
      intro i hi; rw [B2, B1]
      by_cases h1 : homeOf k = i <;> by_cases h2 : idx = i <;> simp [h1, h2, raise, push, hi]
    have bd2 : ∀ i, (bkt bs i).bound ≤
        (bkt (updB (updB bs idx (push maxCount k)) (homeOf k) (raise roundUp p)) i).bound := by
      intro i; rw [B2, B1]
      by_cases h1 : homeOf k = i <;> by_cases h2 : idx = i <;> simp [h1, h2, raise, push]
      all_goals (split <;> first | omega | (have := hr p; omega))
    have bdhome : p ≤
        (bkt (updB (updB bs idx (push maxCount k)) (homeOf k) (raise roundUp p)) (homeOf k)).bound := by
      rw [B2, B1]
      by_cases h2 : idx = homeOf k <;> simp [h2, raise, push]
      all_goals (split <;> first | omega | exact hr p)
    refine ⟨?_, ?_, ?_⟩
    · intro i; rw [items2]
      by_cases h2 : idx = i
      · subst h2; simp; omega
      · simp [h2]; exact hP.size i
    · intro i hi; rw [items2] at hi
      by_cases h2 : idx = i
      · subst h2
        rw [B2, B1]
        simp at hi
        by_cases h1 : homeOf k = idx <;> simp [h1, raise, push, hi]
      · simp [h2] at hi; exact wf2 i (hP.full i hi)
    · intro i x hx; rw [items2] at hx
      have old : x ∈ (bkt bs i).items → ∃ p', i = seq next (homeOf x) p' ∧
          p' ≤ (bkt (updB (updB bs idx (push maxCount k)) (homeOf k) (raise roundUp p)) (homeOf x)).bound ∧
          ∀ q, q < p' → (bkt (updB (updB bs idx (push maxCount k)) (homeOf k) (raise roundUp p))
            (seq next (homeOf x) q)).wasFull = true := by
        intro hx'
        obtain ⟨p', e, hp', hq'⟩ := hP.place i x hx'
        exact ⟨p', e, Nat.le_trans hp' (bd2 _), fun q hlt => wf2 _ (hq' q hlt)⟩
      by_cases h2 : idx = i
      · subst h2
        simp at hx
        rcases hx with hx | hx
        · exact old hx
        · subst hx
          refine ⟨p, hidx, bdhome, ?_⟩
          intro q hq
          have hqfull := hfull q (by omega) hq
          have hsz := hP.size (seq next (homeOf x) q)
          exact wf2 _ (hP.full _ (by omega))
      · simp [h2] at hx; exact old hx
#print axioms addNogrow_placed
