-- MemPool address arithmetic prototype (Int addresses)
structure Par where
  A : Int
  k : Int      -- S = A * k
  N : Int
  hA : 0 < A
  hk : 2 ≤ k
  hN : 1 ≤ N

namespace Par
variable (p : Par)
def S : Int := p.A * p.k

def getBlock (buf i : Int) : Int := buf + i * p.S + (if 0 ≤ i then p.A else 0)

def dir (b : Int) : Int := ((b % p.S) / p.A) % 2
def idx (b : Int) : Int := (b / p.S) % p.N - (if p.dir b = 0 then p.N else 0)
def bufOf (b : Int) : Int := b - p.idx b * p.S - (if p.dir b = 1 then p.A else 0)

structure BufOK (buf : Int) : Prop where
  nonneg : 0 ≤ buf
  even : ((buf % p.S) / p.A) % 2 = 0
  room : buf % p.S + p.A < p.S
  aligned : buf % p.A = 0
  slot0 : (buf / p.S) % p.N = 0

theorem S_pos : 0 < p.S := by
  unfold S; exact Int.mul_pos p.hA (by have := p.hk; omega)

theorem recover_neg (buf i : Int) (h : p.BufOK buf) (hi : -p.N ≤ i) (hi2 : i < 0) :
    p.idx (p.getBlock buf i) = i ∧ p.bufOf (p.getBlock buf i) = buf := by
  have hS := p.S_pos
  have hb : p.getBlock buf i = buf + i * p.S := by simp [getBlock]; omega
  have hmod : (buf + i * p.S) % p.S = buf % p.S := Int.add_mul_emod_self_right ..
  have hdiv : (buf + i * p.S) / p.S = buf / p.S + i := Int.add_mul_ediv_right _ _ (by omega)
  have hdir : p.dir (buf + i * p.S) = 0 := by simp [dir, hmod, h.even]
  have hidx : p.idx (buf + i * p.S) = i := by
    simp only [idx, hdir, hdiv, if_true]
    have : (buf / p.S + i) % p.N = p.N + i := by
      have h0 := h.slot0
      have hN := p.hN
      rw [Int.add_emod, h0, Int.zero_add, Int.emod_emod_of_dvd _ (Int.dvd_refl _)]
      have : i % p.N = (i + p.N) % p.N := by simp
      rw [this, Int.emod_eq_of_lt (by omega) (by omega)]; omega
    omega
  rw [hb]
  refine ⟨hidx, ?_⟩
  simp [bufOf, hidx, hdir]

theorem recover_nonneg (buf i : Int) (h : p.BufOK buf) (hi : 0 ≤ i) (hi2 : i < p.N) :
    p.idx (p.getBlock buf i) = i ∧ p.bufOf (p.getBlock buf i) = buf := by
  have hS := p.S_pos
  have hA := p.hA
  have hb : p.getBlock buf i = (buf + p.A) + i * p.S := by simp [getBlock, hi]; omega
  have hr0 : 0 ≤ buf % p.S := Int.emod_nonneg _ (by omega)
  have hbA : (buf + p.A) % p.S = buf % p.S + p.A := by
    have e : buf + p.A = (buf % p.S + p.A) + (buf / p.S) * p.S := by
      have := Int.emod_add_mul_ediv buf p.S
      rw [Int.mul_comm] at this; omega
    rw [e, Int.add_mul_emod_self_right, Int.emod_eq_of_lt (by omega) h.room]
  have hbAd : (buf + p.A) / p.S = buf / p.S := by
    have e : buf + p.A = (buf % p.S + p.A) + (buf / p.S) * p.S := by
      have := Int.emod_add_mul_ediv buf p.S
      rw [Int.mul_comm] at this; omega
    rw [e, Int.add_mul_ediv_right _ _ (by omega), Int.ediv_eq_zero_of_lt (by omega) h.room]; omega
  have hmod : ((buf + p.A) + i * p.S) % p.S = buf % p.S + p.A := by
    rw [Int.add_mul_emod_self_right, hbA]
  have hdiv : ((buf + p.A) + i * p.S) / p.S = buf / p.S + i := by
    rw [Int.add_mul_ediv_right _ _ (by omega), hbAd]
  have hdir : p.dir ((buf + p.A) + i * p.S) = 1 := by
    simp only [dir, hmod]
    have : (buf % p.S + p.A) / p.A = (buf % p.S) / p.A + 1 := by
      rw [Int.add_ediv_of_dvd_right (Int.dvd_refl _), Int.ediv_self (by omega)]
    rw [this]; have := h.even; omega
  have hidx : p.idx ((buf + p.A) + i * p.S) = i := by
    simp only [idx, hdir, hdiv]
    have : (buf / p.S + i) % p.N = i := by
      rw [Int.add_emod, h.slot0, Int.zero_add, Int.emod_emod_of_dvd _ (Int.dvd_refl _),
        Int.emod_eq_of_lt hi hi2]
    simp [this]
  rw [hb]
  refine ⟨hidx, ?_⟩
  simp [bufOf, hidx, hdir]
end Par
#print axioms Par.recover_nonneg
