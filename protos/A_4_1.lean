def pshift (L : Nat) : Nat := (L + 6) % 8
def encB (h L p : Nat) : Nat := 128 ||| (((h >>> L) <<< pshift L) % 256) ||| (p % 256)
def encO (h L p : Nat) : Nat := 2^7 ||| ((((h >>> L) % 2^(7 - pshift L)) <<< pshift L) ||| p)
def encA (h L p : Nat) : Nat := 128 + ((h / 2^L) % 2^(7 - pshift L)) * 2^(pshift L) + p

theorem pshift_lt (L : Nat) : pshift L < 8 := by unfold pshift; omega

theorem encB_eq_encO (h L p : Nat) (hp : p < 2 ^ pshift L) : encB h L p = encO h L p := by
  have hs := pshift_lt L
  unfold encB encO
  generalize pshift L = s at *
  have hp256 : p < 256 := by
    have : 2 ^ s ≤ 2 ^ 7 := Nat.pow_le_pow_right (by decide) (by omega)
    omega
  rw [Nat.mod_eq_of_lt hp256]
  apply Nat.eq_of_testBit_eq
  intro i
  have h256 : (256:Nat) = 2^8 := by decide
  have h128 : (128:Nat) = 2^7 := by decide
  simp only [Nat.testBit_or, h256, h128, Nat.testBit_mod_two_pow, Nat.testBit_shiftLeft,
    Nat.testBit_shiftRight, Nat.testBit_two_pow]
  have hpi : s ≤ i → p.testBit i = false := fun hsi =>
    Nat.testBit_lt_two_pow (Nat.lt_of_lt_of_le hp (Nat.pow_le_pow_right (by decide) hsi))
  by_cases h7 : 7 = i
  · subst h7; simp
  · by_cases hi8 : i < 8
    · by_cases hsi : s ≤ i
      · have : i - s < 7 - s := by omega
        simp [hi8, hsi, this, h7]
      · simp [hsi]
    · have hsi : s ≤ i := by omega
      have : ¬ (i - s < 7 - s) := by omega
      simp [hi8, hpi hsi, this, h7]

theorem encO_eq_encA (h L p : Nat) (hp : p < 2 ^ pshift L) : encO h L p = encA h L p := by
  have hs := pshift_lt L
  unfold encO encA
  generalize pshift L = s at *
  have hm : (h >>> L) % 2^(7-s) < 2^(7-s) := Nat.mod_lt _ (Nat.two_pow_pos _)
  rw [← Nat.shiftLeft_add_eq_or_of_lt hp, Nat.shiftLeft_eq, Nat.shiftRight_eq_div_pow]
  have hlt : (h / 2^L) % 2^(7-s) * 2^s + p < 2^7 := by
    have e : 2^7 = 2^(7-s) * 2^s := by rw [← Nat.pow_add]; congr 1; omega
    rw [Nat.shiftRight_eq_div_pow] at hm
    have h1 : (h / 2^L) % 2^(7-s) + 1 ≤ 2^(7-s) := hm
    have h2 := Nat.mul_le_mul_right (2^s) h1
    rw [Nat.add_mul] at h2
    omega
  have := Nat.two_pow_add_eq_or_of_lt hlt 1
  rw [Nat.mul_one] at this
  rw [← this]
  omega
#print axioms encB_eq_encO
#print axioms encO_eq_encA
