-- prototype: BucketOpen2N2::UpdateMaxProbe / pvGetMaxProbe as a state machine (C13)
-- state: mantissa byte m = mState[0], exponent e = mState[1] >> 2
structure MP where
  m : Nat
  e : Nat
deriving DecidableEq, Repr

def MP.dec (s : MP) : Nat := s.m * 2 ^ s.e          -- size_t{mState[0]} << (mState[1] >> 2)

def shrinkLoop (lim : Nat) : Nat → Nat → Nat → Nat × Nat
  | 0, m, e => (m, e)
  | fuel+1, m, e => if m ≥ lim then shrinkLoop lim fuel (m / 2) (e + 1) else (m, e)

/-- UpdateMaxProbe(probe) with the `probe <= 255` fast path that leaves the exponent untouched -/
def MP.upd (s : MP) (p : Nat) : MP :=
  if p = 0 ∨ p ≤ s.dec then s
  else if p ≤ 255 then { s with m := p }
  else let r := shrinkLoop 255 64 (p - 1) 0; ⟨r.1 + 1, r.2⟩

/-- invariant that makes the fast path sound: a non-zero exponent means the bound is already ≥ 256 -/
def MP.Ok (s : MP) : Prop := s.m ≤ 255 ∧ (s.e = 0 ∨ 256 ≤ s.dec)

theorem shrinkLoop_spec (lim : Nat) (fuel m e : Nat) (hf : m < 2 ^ fuel * lim) :
    let r := shrinkLoop lim fuel m e
    r.1 < lim ∧ e ≤ r.2 ∧ r.1 = m / 2 ^ (r.2 - e) ∧ (lim ≤ m → e < r.2) := by
  induction fuel generalizing m e with
  | zero => simp [shrinkLoop] at *; omega
  | succ f ih =>
    simp only [shrinkLoop]
    split
    · have h2 : m / 2 < 2 ^ f * lim := by
        have : 2 ^ (f+1) * lim = 2 * (2 ^ f * lim) := by rw [Nat.pow_succ]; ac_rfl
        omega
      obtain ⟨a, b, c, _⟩ := ih (m / 2) (e + 1) h2
      refine ⟨a, by omega, ?_, fun _ => by omega⟩
      rw [c]
      have : (shrinkLoop lim f (m / 2) (e + 1)).2 - e = ((shrinkLoop lim f (m / 2) (e + 1)).2 - (e+1)) + 1 := by omega
      rw [this, Nat.pow_succ, Nat.div_div_eq_div_mul, Nat.mul_comm]
    · simp; omega

theorem upd_ok (s : MP) (p : Nat) (hs : s.Ok) (hp : p < 2 ^ 64) :
    (s.upd p).Ok ∧ p ≤ (s.upd p).dec ∧ s.dec ≤ (s.upd p).dec := by
  unfold MP.upd
  split
  · rename_i h
    refine ⟨hs, ?_, Nat.le_refl _⟩
    rcases h with h | h <;> omega
  · rename_i h
    have hp0 : 0 < p := by omega
    have hgt : s.dec < p := by omega
    split
    · rename_i h255
      -- fast path: exponent must be 0, otherwise dec ≥ 256 > p
      have he : s.e = 0 := by
        rcases hs.2 with h0 | h256
        · exact h0
        · omega
      refine ⟨⟨h255, Or.inl he⟩, ?_, ?_⟩
      · simp [MP.dec, he]
      · simp only [MP.dec, he] at hgt ⊢; simp at hgt ⊢; omega
    · rename_i h255
      have hfuel : p - 1 < 2 ^ 64 * 255 := by omega
      obtain ⟨a, _, c, d⟩ := shrinkLoop_spec 255 64 (p - 1) 0 hfuel
      simp only [Nat.sub_zero] at c
      have he : 0 < (shrinkLoop 255 64 (p - 1) 0).2 := d (by omega)
      generalize shrinkLoop 255 64 (p - 1) 0 = r at *
      have hdec : p ≤ (r.1 + 1) * 2 ^ r.2 := by
        have := Nat.lt_mul_div_succ (p - 1) (Nat.two_pow_pos r.2)
        rw [c]
        have h3 : 2 ^ r.2 * ((p - 1) / 2 ^ r.2 + 1) = ((p - 1) / 2 ^ r.2 + 1) * 2 ^ r.2 := Nat.mul_comm _ _
        omega
      refine ⟨⟨by simp; omega, Or.inr ?_⟩, ?_, ?_⟩
      · simp only [MP.dec]; omega
      · simpa [MP.dec] using hdec
      · simp only [MP.dec] at hgt ⊢; omega
#print axioms upd_ok
