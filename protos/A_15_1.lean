-- prototype: B-tree context lemmas for removal and rebalancing (C02)
inductive Node (α : Type) where
  | leaf (items : List α)
  | inner (items : List α) (children : List (Node α))

namespace Node
variable {α : Type}

mutual
  def toList : Node α → List α
    | leaf items => items
    | inner items children => inter children items
  def inter : List (Node α) → List α → List α
    | [], _ => []
    | c :: cs, [] => toList c ++ inter cs []
    | c :: cs, i :: is => toList c ++ i :: inter cs is
end

/-- replacing child `i` by a node with a different in-order list: the whole in-order list is the old one
    with that segment replaced (context decomposition `pre ++ · ++ post`) -/
theorem inter_set (cs : List (Node α)) (is : List α) (i : Nat) (hi : i < cs.length)
    (hlen : cs.length = is.length + 1) :
    ∃ pre post, inter cs is = pre ++ toList (cs[i]) ++ post ∧
      ∀ c', inter (cs.set i c') is = pre ++ toList c' ++ post := by
  induction cs generalizing is i with
  | nil => simp at hi
  | cons c cs ih =>
    cases i with
    | zero =>
      cases is with
      | nil => exact ⟨[], inter cs [], by simp [inter], fun c' => by simp [inter]⟩
      | cons s is' => exact ⟨[], s :: inter cs is', by simp [inter], fun c' => by simp [inter]⟩
    | succ j =>
      cases is with
      | nil => simp at hlen; subst hlen; simp at hi
      | cons s is' =>
        obtain ⟨pre, post, h1, h2⟩ := ih is' j (by simpa using hi) (by simpa using hlen)
        refine ⟨toList c ++ s :: pre, post, ?_, fun c' => ?_⟩
        · simp [inter, h1]
        · simp [inter, h2 c']

/-- merging children `i` and `i+1` with separator `i` (what `pvRebalance` does) keeps the in-order list,
    for any merged node whose in-order list is `left ++ sep :: right` -/
theorem inter_merge (cs : List (Node α)) (is : List α) (i : Nat) (hi : i < is.length)
    (hlen : cs.length = is.length + 1) (m : Node α)
    (hm : toList m = toList (cs[i]'(by omega)) ++ is[i] :: toList (cs[i+1]'(by omega))) :
    inter (cs.take i ++ m :: cs.drop (i+2)) (is.eraseIdx i) = inter cs is := by
  induction cs generalizing is i with
  | nil => simp at hlen
  | cons c cs ih =>
    cases is with
    | nil => simp at hi
    | cons s is' =>
      cases i with
      | zero =>
        cases cs with
        | nil => simp at hlen
        | cons c2 cs2 =>
          simp at hm
          cases is' <;> simp [inter, hm, List.append_assoc]
      | succ j =>
        have hlen' : cs.length = is'.length + 1 := by simpa using hlen
        have hj : j < is'.length := by simpa using hi
        have := ih is' j hj hlen' (by simpa using hm)
        simp only [List.take_succ_cons, List.drop_succ_cons, List.eraseIdx_cons_succ, List.cons_append,
          inter]
        rw [this]

/-- the same decomposition, exposing separator `i` as well (for removing an inner item by moving the
    predecessor up, and for `pvDestroyInternal`) -/
theorem inter_set_sep (cs : List (Node α)) (is : List α) (i : Nat) (hi : i < is.length)
    (hlen : cs.length = is.length + 1) :
    ∃ pre post, inter cs is = pre ++ toList (cs[i]'(by omega)) ++ is[i] :: post ∧
      (∀ c' s', inter (cs.set i c') (is.set i s') = pre ++ toList c' ++ s' :: post) ∧
      inter (cs.eraseIdx i) (is.eraseIdx i) = pre ++ post := by
  induction cs generalizing is i with
  | nil => simp at hlen
  | cons c cs ih =>
    cases is with
    | nil => simp at hi
    | cons s is' =>
      cases i with
      | zero =>
        exact ⟨[], inter cs is', by simp [inter], fun c' s' => by simp [inter], by simp⟩
      | succ j =>
        obtain ⟨pre, post, h1, h2, h3⟩ := ih is' j (by simpa using hi) (by simpa using hlen)
        refine ⟨toList c ++ s :: pre, post, ?_, fun c' s' => ?_, ?_⟩
        · simp [inter, h1]
        · simp [inter, h2 c' s']
        · simp [inter, h3]

/-- removing inner item `i` by pulling up the predecessor `p` (last element of child `i`) -/
theorem remove_inner_by_pred (cs : List (Node α)) (is : List α) (i : Nat) (hi : i < is.length)
    (hlen : cs.length = is.length + 1) (c' : Node α) (p : α)
    (hp : toList (cs[i]'(by omega)) = toList c' ++ [p]) :
    ∃ pre post, inter cs is = pre ++ is[i] :: post ∧
      inter (cs.set i c') (is.set i p) = pre ++ post := by
  obtain ⟨pre, post, h1, h2, _⟩ := inter_set_sep cs is i hi hlen
  refine ⟨pre ++ toList c' ++ [p], post, ?_, ?_⟩
  · rw [h1, hp]; simp
  · rw [h2 c' p]; simp

/-- `pvDestroyInternal(node, i, destroyRight = false)` when child `i` is empty -/
theorem remove_inner_empty_left (cs : List (Node α)) (is : List α) (i : Nat) (hi : i < is.length)
    (hlen : cs.length = is.length + 1) (he : toList (cs[i]'(by omega)) = []) :
    ∃ pre post, inter cs is = pre ++ is[i] :: post ∧
      inter (cs.eraseIdx i) (is.eraseIdx i) = pre ++ post := by
  obtain ⟨pre, post, h1, _, h3⟩ := inter_set_sep cs is i hi hlen
  exact ⟨pre, post, by rw [h1, he]; simp, h3⟩

/-- root collapse: an inner root without items and a single child denotes the same list -/
theorem root_collapse (c : Node α) : toList (inner [] [c]) = toList c := by simp [toList, inter]
end Node
#print axioms Node.inter_merge
#print axioms Node.inter_set
#print axioms Node.remove_inner_by_pred
#print axioms Node.remove_inner_empty_left
