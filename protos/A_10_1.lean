-- prototype: lock-free hand-off of disposed rows (C19): pushers (load; write next; CAS) vs owner (exchange; walk)
-- ghost lists `L` (published stack) and `W` (chain taken by the owner) shadow the pointer state.
abbrev Row := Nat

inductive PC where
  | start (r : Row)                -- owns detached row r, about to load head
  | loaded (r : Row) (h : Option Row)
  | wrote (r : Row) (h : Option Row)   -- raw.next := h done, about to CAS
  | done
deriving DecidableEq

structure St where
  head : Option Row
  next : Row → Option Row
  thr  : List PC                   -- disposer threads
  cur  : Option Row                -- owner's walk pointer
  freed : List Row                 -- blocks returned to the pool (ghost: order of reclamation)
  L : List Row                     -- ghost: published chain, head first
  W : List Row                     -- ghost: chain being walked by the owner

def PC.row : PC → Option Row
  | .start r => some r | .loaded r _ => some r | .wrote r _ => some r | .done => none

def inflight (s : St) : List Row := s.thr.filterMap PC.row

/-- `next` agrees with a ghost chain -/
def Linked (next : Row → Option Row) : List Row → Prop
  | [] => True
  | [a] => next a = none
  | a :: b :: rest => next a = some b ∧ Linked next (b :: rest)

inductive Step : St → St → Prop where
  | load (s : St) (i : Nat) (r : Row) (h : s.thr[i]? = some (.start r)) :
      Step s { s with thr := s.thr.set i (.loaded r s.head) }
  | write (s : St) (i : Nat) (r : Row) (hd : Option Row) (h : s.thr[i]? = some (.loaded r hd)) :
      Step s { s with thr := s.thr.set i (.wrote r hd), next := fun x => if x = r then hd else s.next x }
  | casOk (s : St) (i : Nat) (r : Row) (hd : Option Row) (h : s.thr[i]? = some (.wrote r hd))
      (heq : s.head = hd) :
      Step s { s with thr := s.thr.set i .done, head := some r, L := r :: s.L }
  | casFail (s : St) (i : Nat) (r : Row) (hd : Option Row) (h : s.thr[i]? = some (.wrote r hd))
      (hne : s.head ≠ hd) :
      Step s { s with thr := s.thr.set i (.start r) }
  | exchange (s : St) (hidle : s.cur = none) :
      Step s { s with cur := s.head, head := none, W := s.L, L := [] }
  | walk (s : St) (c : Row) (hc : s.cur = some c) :
      Step s { s with cur := s.next c, freed := c :: s.freed, W := s.W.tail }

structure FInv (s : St) : Prop where
  headL : s.head = s.L.head?
  curW  : s.cur = s.W.head?
  linkL : Linked s.next s.L
  linkW : Linked s.next s.W
  nodup : (inflight s ++ s.L ++ s.W ++ s.freed).Nodup
  wroteOk : ∀ r hd, PC.wrote r hd ∈ s.thr → s.next r = hd

theorem Linked_tail {next : Row → Option Row} {l : List Row} (h : Linked next l) : Linked next l.tail := by
  match l, h with
  | [], _ => trivial
  | [_], _ => trivial
  | _ :: b :: rest, h => exact h.2

theorem Linked_congr {n1 n2 : Row → Option Row} {l : List Row} (h : Linked n1 l)
    (hag : ∀ x, x ∈ l → n1 x = n2 x) : Linked n2 l := by
  induction l with
  | nil => trivial
  | cons a t ih =>
    cases t with
    | nil => simp [Linked] at h ⊢; rw [← hag a (by simp)]; exact h
    | cons b rest =>
      simp only [Linked] at h ⊢
      refine ⟨?_, ih h.2 (fun x hx => hag x (List.mem_cons_of_mem _ hx))⟩
      rw [← hag a (by simp)]; exact h.1

theorem Linked_head_next {next : Row → Option Row} {a : Row} {l : List Row} (h : Linked next (a :: l)) :
    next a = l.head? := by
  cases l with
  | nil => simpa [Linked] using h
  | cons b rest => simpa [Linked] using h.1

/-- the owner's walk step: the reclaimed block leaves `W`, enters `freed`; everything else is unchanged -/
theorem inv_walk (s : St) (c : Row) (hc : s.cur = some c) (h : FInv s) :
    FInv { s with cur := s.next c, freed := c :: s.freed, W := s.W.tail } := by
  have hW : ∃ t, s.W = c :: t := by
    have := h.curW; rw [hc] at this
    cases hw : s.W with
    | nil => simp [hw] at this
    | cons a t => simp [hw] at this; exact ⟨t, by rw [this]⟩
  obtain ⟨t, hWt⟩ := hW
  refine ⟨h.headL, ?_, h.linkL, ?_, ?_, h.wroteOk⟩
  · simp only [hWt, List.tail_cons]
    have := h.linkW; rw [hWt] at this
    exact Linked_head_next this
  · exact Linked_tail h.linkW
  · have hn := h.nodup
    simp only [inflight, hWt, List.tail_cons] at hn ⊢
    -- moving c from the front of W to the front of freed keeps Nodup
    have : ((List.filterMap PC.row s.thr ++ s.L) ++ (c :: t) ++ s.freed).Perm
           ((List.filterMap PC.row s.thr ++ s.L) ++ t ++ c :: s.freed) := by
      simp only [List.append_assoc]
      refine List.Perm.append_left _ (List.Perm.append_left _ ?_)
      simpa using (List.perm_middle (l₁ := t) (a := c) (l₂ := s.freed)).symm
    exact (List.Perm.nodup_iff this).mp hn

/-- take-all: the published chain becomes the owner's chain -/
theorem inv_exchange (s : St) (hidle : s.cur = none) (h : FInv s) :
    FInv { s with cur := s.head, head := none, W := s.L, L := [] } := by
  have hWnil : s.W = [] := by
    have := h.curW; rw [hidle] at this
    cases hw : s.W with
    | nil => rfl
    | cons a t => simp [hw] at this
  refine ⟨rfl, h.headL, trivial, h.linkL, ?_, h.wroteOk⟩
  have hn := h.nodup
  simp only [inflight, hWnil, List.append_nil] at hn ⊢
  simpa using hn
#print axioms inv_walk
#print axioms inv_exchange

/-- replacing thread i (which holds row r) by a thread holding no row removes exactly r from `inflight` -/
theorem filterMap_set_perm (thr : List PC) (i : Nat) (pc : PC) (r : Row)
    (h : thr[i]? = some pc) (hr : pc.row = some r) :
    (thr.filterMap PC.row).Perm (r :: (thr.set i .done).filterMap PC.row) := by
  induction thr generalizing i with
  | nil => simp at h
  | cons a t ih =>
    cases i with
    | zero =>
      simp at h; subst h
      rw [List.set_cons_zero, List.filterMap_cons, hr, List.filterMap_cons]
      have : PC.done.row = none := rfl
      simp [this]
    | succ j =>
      simp at h
      have := ih j h
      simp only [List.set_cons_succ, List.filterMap_cons]
      cases ha : a.row with
      | none => simpa [ha] using this
      | some x =>
        simp only [ha]
        exact (List.Perm.cons x this).trans (List.Perm.swap r x _)

theorem mem_of_getElem? {l : List PC} {i : Nat} {pc : PC} (h : l[i]? = some pc) : pc ∈ l :=
  List.mem_of_getElem? h

/-- successful CAS: the row is published -/
theorem inv_casOk (s : St) (i : Nat) (r : Row) (hd : Option Row) (h : s.thr[i]? = some (.wrote r hd))
    (heq : s.head = hd) (hI : FInv s) :
    FInv { s with thr := s.thr.set i .done, head := some r, L := r :: s.L } := by
  have hperm := filterMap_set_perm s.thr i (.wrote r hd) r h rfl
  have hnext : s.next r = hd := hI.wroteOk r hd (mem_of_getElem? h)
  refine ⟨rfl, hI.curW, ?_, hI.linkW, ?_, ?_⟩
  · -- Linked next (r :: L): next r = hd = head = L.head?
    have hh : s.next r = s.L.head? := by rw [hnext, ← heq, hI.headL]
    cases hL : s.L with
    | nil => simp [hL] at hh; simpa [Linked] using hh
    | cons b rest =>
      simp [hL] at hh
      have hl := hI.linkL; rw [hL] at hl
      exact ⟨hh, hl⟩
  · have hn := hI.nodup
    simp only [inflight] at hn ⊢
    have p1 : (List.filterMap PC.row s.thr ++ s.L ++ s.W ++ s.freed).Perm
        (r :: (List.filterMap PC.row (s.thr.set i .done) ++ s.L ++ s.W ++ s.freed)) := by
      simp only [List.append_assoc]
      exact List.Perm.append_right _ hperm
    have p2 : (r :: (List.filterMap PC.row (s.thr.set i .done) ++ s.L ++ s.W ++ s.freed)).Perm
        (List.filterMap PC.row (s.thr.set i .done) ++ (r :: s.L) ++ s.W ++ s.freed) := by
      simp only [List.append_assoc]
      exact (List.perm_middle).symm
    exact (List.Perm.nodup_iff (p1.trans p2)).mp hn
  · intro r' hd' hmem
    have : PC.wrote r' hd' ∈ s.thr := by
      have := List.mem_or_eq_of_mem_set hmem
      rcases this with h1 | h1
      · exact h1
      · cases h1
    exact hI.wroteOk r' hd' this
#print axioms inv_casOk
