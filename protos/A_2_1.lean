import Mathlib.Data.Nat.Prime.Basic
import Mathlib.Tactic.Ring
import Mathlib.Tactic.Linarith
-- triangular probing: T i = i*(i+1)/2 ; injective mod 2^k on [0, 2^k)
def tri (i : Nat) : Nat := i * (i + 1) / 2

theorem two_tri (i : Nat) : 2 * tri i = i * (i + 1) := by
  unfold tri
  have : 2 ∣ i * (i + 1) := by
    rcases Nat.even_or_odd i with h | h
    · exact Dvd.dvd.mul_right h.two_dvd _
    · have : Even (i+1) := h.add_one
      exact Dvd.dvd.mul_left this.two_dvd _
  omega

theorem tri_inj_mod (k i j : Nat) (hi : i < 2 ^ k) (hj : j < 2 ^ k) (hij : i < j)
    (h : tri i % 2 ^ k = tri j % 2 ^ k) : False := by
  -- 2^k ∣ tri j - tri i ; so 2^(k+1) ∣ (j - i) * (i + j + 1)
  have hle : tri i ≤ tri j := by
    have := two_tri i; have := two_tri j
    have : i * (i+1) ≤ j * (j+1) := Nat.mul_le_mul (by omega) (by omega)
    omega
  have hd : 2 ^ k ∣ tri j - tri i := by
    have := Nat.sub_mod_eq_zero_of_mod_eq h.symm
    exact Nat.dvd_of_mod_eq_zero this
  have hd2 : 2 ^ (k+1) ∣ (j - i) * (i + j + 1) := by
    have e : (j - i) * (i + j + 1) = 2 * (tri j - tri i) := by
      have h1 := two_tri i; have h2 := two_tri j
      obtain ⟨d, rfl⟩ : ∃ d, j = i + d := ⟨j - i, by omega⟩
      have : i + d - i = d := by omega
      rw [this, Nat.mul_sub, h1, h2]
      have : (i + d) * (i + d + 1) = i * (i + 1) + d * (i + (i + d) + 1) := by ring
      omega
    rw [e, Nat.pow_succ, Nat.mul_comm]
    exact Nat.mul_dvd_mul_left 2 hd
  -- one factor is odd
  rcases Nat.even_or_odd (j - i) with he | ho
  · -- then i + j + 1 odd, coprime to 2^(k+1)
    have hodd : Odd (i + j + 1) := by
      have : i + j + 1 = (j - i) + (2 * i + 1) := by omega
      rw [this]; exact he.add_odd ⟨i, rfl⟩
    have hc : Nat.Coprime (2 ^ (k+1)) (i + j + 1) :=
      Nat.Coprime.pow_left _ (Nat.coprime_two_left.mpr hodd)
    have := hc.dvd_of_dvd_mul_right hd2
    have := Nat.le_of_dvd (by omega) this
    have : 2 ^ (k+1) = 2 * 2 ^ k := by rw [Nat.pow_succ, Nat.mul_comm]
    omega
  · have hc : Nat.Coprime (2 ^ (k+1)) (j - i) :=
      Nat.Coprime.pow_left _ (Nat.coprime_two_left.mpr ho)
    have := hc.dvd_of_dvd_mul_left hd2
    have := Nat.le_of_dvd (by omega) this
    have : 2 ^ (k+1) = 2 * 2 ^ k := by rw [Nat.pow_succ, Nat.mul_comm]
    omega
#print axioms tri_inj_mod
