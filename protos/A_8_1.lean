-- SegmentedArraySettings<sqrt, L0>: index <-> (segment, offset) round trip, all naturals
namespace Seg
def logItem (index1 : Nat) : Nat := (Nat.log2 index1 + 1) / 2
def segLog (seg : Nat) : Nat := Nat.log2 ((seg * 2 + 4) / 3)

def getSeg (L0 index : Nat) : Nat × Nat :=
  let index1 := index / 2^L0 + 1
  let index2 := index % 2^L0
  let k := logItem index1
  (index1 / 2^k + 2^k - 2, (index1 % 2^k) * 2^L0 + index2)

def getIndex (L0 seg item : Nat) : Nat :=
  let item1 := item / 2^L0
  let item2 := item % 2^L0
  let k := segLog seg
  let index1 := (seg + 2 - 2^k) * 2^k + item1
  (index1 - 1) * 2^L0 + item2

def itemCount (L0 seg : Nat) : Nat := 2^(segLog seg + L0)

theorem log2_bounds (n : Nat) (hn : n ≠ 0) : 2 ^ Nat.log2 n ≤ n ∧ n < 2 ^ (Nat.log2 n + 1) :=
  ⟨Nat.log2_self_le hn, Nat.lt_log2_self⟩

theorem log2_eq_of (n k : Nat) (h1 : 2^k ≤ n) (h2 : n < 2^(k+1)) : Nat.log2 n = k := by
  have hn : n ≠ 0 := by have := Nat.two_pow_pos k; omega
  have a : Nat.log2 n < k + 1 := (Nat.log2_lt hn).mpr h2
  have b : ¬ Nat.log2 n < k := by
    intro hlt
    have := (Nat.log2_lt hn).mp hlt
    omega
  omega

/-- bounds of index1 in terms of k = logItem index1, for k ≥ 1 -/
theorem index1_bounds (i1 : Nat) (h : 1 ≤ i1) (hk : 1 ≤ logItem i1) :
    2^(2 * logItem i1 - 1) ≤ i1 ∧ i1 < 2^(2 * logItem i1 + 1) := by
  have hn : i1 ≠ 0 := by omega
  obtain ⟨lo, hi⟩ := log2_bounds i1 hn
  unfold logItem at *
  generalize Nat.log2 i1 = l at *
  have h1 : 2 * ((l + 1) / 2) - 1 ≤ l := by omega
  have h2 : l + 1 ≤ 2 * ((l + 1) / 2) + 1 := by omega
  exact ⟨Nat.le_trans (Nat.pow_le_pow_right (by decide) h1) lo,
         Nat.lt_of_lt_of_le hi (Nat.pow_le_pow_right (by decide) h2)⟩

theorem segLog_getSeg (L0 index : Nat) :
    segLog (getSeg L0 index).1 = logItem (index / 2^L0 + 1) := by
  simp only [getSeg]
  generalize hi1 : index / 2^L0 + 1 = i1
  have h1 : 1 ≤ i1 := by rw [← hi1]; exact Nat.le_add_left 1 _
  by_cases hk : logItem i1 = 0
  · -- i1 = 1
    have hl : Nat.log2 i1 = 0 := by unfold logItem at hk; omega
    have h2 := (log2_bounds i1 (by omega)).2
    rw [hl] at h2
    have h3 : i1 < 2 := by simpa using h2
    have : i1 = 1 := by omega
    subst this
    simp [hk, segLog]; decide
  · have hk1 : 1 ≤ logItem i1 := by omega
    obtain ⟨lo, hi⟩ := index1_bounds i1 h1 hk1
    generalize logItem i1 = k at *
    -- q = i1 / 2^k ∈ [2^(k-1), 2^(k+1))
    have hq1 : 2^(k-1) ≤ i1 / 2^k := by
      rw [Nat.le_div_iff_mul_le (Nat.two_pow_pos k), ← Nat.pow_add]
      have : k - 1 + k = 2 * k - 1 := by omega
      rw [this]; exact lo
    have hq2 : i1 / 2^k < 2^(k+1) := by
      rw [Nat.div_lt_iff_lt_mul (Nat.two_pow_pos k), ← Nat.pow_add]
      have : k + 1 + k = 2 * k + 1 := by omega
      rw [this]; exact hi
    have hpk : 2^k = 2 * 2^(k-1) := by
      have : k = (k - 1) + 1 := by omega
      rw [this, Nat.pow_succ]; simp; omega
    have hpk1 : 2^(k+1) = 2 * 2^k := by rw [Nat.pow_succ]; omega
    have hp0 : 1 ≤ 2^(k-1) := Nat.two_pow_pos _
    unfold segLog
    apply log2_eq_of
    · -- 2^k ≤ ((q + 2^k - 2) * 2 + 4) / 3
      rw [Nat.le_div_iff_mul_le (by decide)]; omega
    · rw [Nat.div_lt_iff_lt_mul (by decide)]; omega

theorem roundtrip (L0 index : Nat) :
    getIndex L0 (getSeg L0 index).1 (getSeg L0 index).2 = index := by
  have hk := segLog_getSeg L0 index
  unfold getIndex
  simp only [hk]
  simp only [getSeg]
  generalize hi1 : index / 2^L0 + 1 = i1
  generalize hkk : logItem i1 = k
  have hp := Nat.two_pow_pos L0
  have hpk := Nat.two_pow_pos k
  have hm : index % 2^L0 < 2^L0 := Nat.mod_lt _ hp
  have e1 : ((i1 % 2^k) * 2^L0 + index % 2^L0) / 2^L0 = i1 % 2^k := by
    rw [Nat.add_comm, Nat.add_mul_div_right _ _ hp, Nat.div_eq_of_lt hm]; omega
  have e2 : ((i1 % 2^k) * 2^L0 + index % 2^L0) % 2^L0 = index % 2^L0 := by
    rw [Nat.add_comm, Nat.add_mul_mod_self_right, Nat.mod_eq_of_lt hm]
  rw [e1, e2]
  -- seg + 2 - 2^k = i1 / 2^k  (needs i1 / 2^k + 2^k ≥ 2)
  have hi1' : 1 ≤ i1 := by rw [← hi1]; exact Nat.le_add_left 1 _
  have hq : 1 ≤ i1 / 2^k ∨ 2 ≤ 2^k := by
    by_cases hk0 : k = 0
    · left; subst hk0; simpa using hi1'
    · right
      have : k = (k-1)+1 := by omega
      rw [this, Nat.pow_succ]; have := Nat.two_pow_pos (k-1); omega
  have e3 : i1 / 2^k + 2^k - 2 + 2 - 2^k = i1 / 2^k := by
    generalize 2^k = P at *
    generalize i1 / P = Q at *
    omega
  rw [e3]
  have e4 : i1 / 2^k * 2^k + i1 % 2^k = i1 := by
    have := Nat.div_add_mod i1 (2^k); rw [Nat.mul_comm] at this; exact this
  rw [e4, ← hi1]
  have := Nat.div_add_mod index (2^L0)
  rw [Nat.mul_comm] at this
  simp; omega
end Seg
#print axioms Seg.roundtrip
