-- prototype: B-tree insertion refines sorted-list insertion (C02). Part 1: list lemmas + child-level step.
inductive Node (α : Type) where
  | leaf (items : List α)
  | inner (items : List α) (children : List (Node α))

namespace Node
variable {α : Type}

mutual
  def toList : Node α → List α
    | leaf items => items
    | inner items children => inter children items
  def inter : List (Node α) → List α → List α
    | [], _ => []
    | c :: cs, [] => toList c ++ inter cs []
    | c :: cs, i :: is => toList c ++ i :: inter cs is
end

variable (lt : α → α → Bool)

/-- `p x` = "x is not greater than k" = the element stays left of the insertion point -/
def leK (k x : α) : Bool := !lt k x

/-- insertion after all elements ≤ k (upper-bound position): equal keys keep insertion order -/
def insU (k : α) (l : List α) : List α := l.takeWhile (leK lt k) ++ k :: l.dropWhile (leK lt k)

theorem insU_append_left (k : α) (a b : List α) (ha : ∀ x ∈ a, leK lt k x = true) :
    insU lt k (a ++ b) = a ++ insU lt k b := by
  unfold insU
  induction a with
  | nil => simp
  | cons x t ih =>
    have hx := ha x (by simp)
    have ht : ∀ y ∈ t, leK lt k y = true := fun y hy => ha y (by simp [hy])
    simp [List.takeWhile_cons, List.dropWhile_cons, hx, ih ht]

theorem insU_append_right (k : α) (a b : List α)
    (hb : b = [] ∨ ∃ y b', b = y :: b' ∧ leK lt k y = false) :
    insU lt k (a ++ b) = insU lt k a ++ b := by
  unfold insU
  induction a with
  | nil =>
    rcases hb with rfl | ⟨y, b', rfl, hy⟩
    · simp
    · simp [List.takeWhile_cons, List.dropWhile_cons, hy]
  | cons x t ih =>
    by_cases hx : leK lt k x = true
    · simp [List.takeWhile_cons, List.dropWhile_cons, hx]
      simpa using ih
    · simp [List.takeWhile_cons, List.dropWhile_cons, hx]

inductive Res (α : Type) where
  | ok (n : Node α)
  | split (l : Node α) (sep : α) (r : Node α)

def Res.toList : Res α → List α
  | .ok n => n.toList
  | .split l s r => l.toList ++ s :: r.toList

variable (cap : Nat)

def upperIdx (items : List α) (k : α) : Nat := (items.takeWhile (leK lt k)).length

/-- overflow handling of a node given as (items, children-or-none) is factored out: `mk items cs` builds
    the result for an inner node, `mkLeaf items` for a leaf -/
def mkLeaf (items : List α) : Res α :=
  if items.length ≤ cap then .ok (leaf items)
  else
    match items.drop (items.length / 2) with
    | [] => .ok (leaf items)
    | s :: rest => .split (leaf (items.take (items.length / 2))) s (leaf rest)

def mkInner (items : List α) (cs : List (Node α)) : Res α :=
  if items.length ≤ cap then .ok (inner items cs)
  else
    match items.drop (items.length / 2) with
    | [] => .ok (inner items cs)
    | sep :: rest => .split (inner (items.take (items.length / 2)) (cs.take (items.length / 2 + 1))) sep
        (inner rest (cs.drop (items.length / 2 + 1)))

mutual
  def ins (k : α) : Node α → Res α
    | leaf items => mkLeaf cap (insU lt k items)
    | inner items children =>
      let i := upperIdx lt items k
      match insAt k children i with
      | (cs', none) => .ok (inner items cs')
      | (cs', some s) => mkInner cap (items.take i ++ s :: items.drop i) cs'
  def insAt (k : α) : List (Node α) → Nat → List (Node α) × Option α
    | [], _ => ([], none)
    | c :: cs, 0 =>
      match ins k c with
      | .ok c' => (c' :: cs, none)
      | .split l s r => (l :: r :: cs, some s)
    | c :: cs, i+1 =>
      let (cs', s) := insAt k cs i
      (c :: cs', s)
end

theorem mkLeaf_toList (items : List α) : (mkLeaf cap items).toList = items := by
  unfold mkLeaf
  split
  · simp [Res.toList, toList]
  · split
    · simp [Res.toList, toList]
    · rename_i s rest hd
      simp only [Res.toList, toList]
      rw [← hd, List.take_append_drop]

/-- splitting an interleaving at separator m -/
theorem inter_split (cs : List (Node α)) (is : List α) (m : Nat) (sep : α) (rest : List α)
    (hlen : cs.length = is.length + 1) (hd : is.drop m = sep :: rest) :
    inter (cs.take (m+1)) (is.take m) ++ sep :: inter (cs.drop (m+1)) rest = inter cs is := by
  induction m generalizing cs is with
  | zero =>
    simp at hd; subst hd
    match cs, hlen with
    | c :: cs', _ => simp [inter]
  | succ m ih =>
    match is, hd with
    | [], hd => simp at hd
    | i :: is', hd =>
      match cs, hlen with
      | c :: cs', hlen =>
        simp at hd hlen
        have := ih cs' is' (by omega) hd
        simp [inter, List.append_assoc]
        exact this

theorem mkInner_toList (items : List α) (cs : List (Node α)) (hlen : cs.length = items.length + 1) :
    (mkInner cap items cs).toList = inter cs items := by
  unfold mkInner
  split
  · simp [Res.toList, toList]
  · split
    · simp [Res.toList, toList]
    · rename_i sep rest hd
      simp only [Res.toList, toList]
      exact inter_split cs items _ sep rest hlen hd

-- what the descent needs to know about the tree: everything left of the chosen child is ≤ k,
-- the separator right of it (if any) is > k, recursively. Follows from sortedness + `upperIdx`.
mutual
  def Good (k : α) : Node α → Prop
    | leaf _ => True
    | inner items cs => cs.length = items.length + 1 ∧ GoodAt k cs items (upperIdx lt items k)
  def GoodAt (k : α) : List (Node α) → List α → Nat → Prop
    | [], _, _ => False
    | c :: _, is, 0 => Good k c ∧ (is = [] ∨ ∃ s is', is = s :: is' ∧ leK lt k s = false)
    | _ :: _, [], _+1 => False
    | c :: cs, s :: is, i+1 => (∀ x ∈ toList c, leK lt k x = true) ∧ leK lt k s = true ∧ GoodAt k cs is i
end

theorem inter_nil_items (cs : List (Node α)) (h : cs.length = 0) (is : List α) : inter cs is = [] := by
  match cs, h with
  | [], _ => simp [inter]

mutual
  theorem ins_refines (k : α) : ∀ n : Node α, Good lt k n → (ins lt cap k n).toList = insU lt k n.toList
    | leaf items, _ => by simp [ins, mkLeaf_toList, toList]
    | inner items cs, hg => by
      obtain ⟨hlen, hat⟩ := hg
      have h := insAt_refines k cs items (upperIdx lt items k) hat hlen
      simp only [ins]
      generalize hr : insAt lt cap k cs (upperIdx lt items k) = r at h
      obtain ⟨cs', o⟩ := r
      cases o with
      | none =>
        simp only [Res.toList, toList]
        exact h.1
      | some sep =>
        simp only at h ⊢
        rw [mkInner_toList]
        · simp only [toList]; exact h.1
        · rw [h.2, hlen]
          have : upperIdx lt items k ≤ items.length := by
            unfold upperIdx; exact (List.takeWhile_sublist _).length_le
          simp [List.length_take, List.length_drop]; omega
  theorem insAt_refines (k : α) : ∀ (cs : List (Node α)) (is : List α) (i : Nat),
      GoodAt lt k cs is i → cs.length = is.length + 1 →
      match insAt lt cap k cs i with
      | (cs', none) => inter cs' is = insU lt k (inter cs is) ∧ cs'.length = cs.length
      | (cs', some sep) => inter cs' (is.take i ++ sep :: is.drop i) = insU lt k (inter cs is)
                            ∧ cs'.length = cs.length + 1
    | [], _, _, hg, _ => by simp [GoodAt] at hg
    | c :: cs, is, 0, hg, hlen => by
      obtain ⟨hgc, htail⟩ := hg
      have hc := ins_refines k c hgc
      -- the part of the in-order list right of child c
      have hT : ∃ T, inter (c :: cs) is = toList c ++ T ∧ (∀ c', inter (c' :: cs) is = toList c' ++ T) ∧
          (T = [] ∨ ∃ y T', T = y :: T' ∧ leK lt k y = false) := by
        rcases htail with rfl | ⟨s, is', rfl, hs⟩
        · refine ⟨inter cs [], by simp [inter], fun c' => by simp [inter], Or.inl ?_⟩
          simp at hlen
          subst hlen; simp [inter]
        · exact ⟨s :: inter cs is', by simp [inter], fun c' => by simp [inter], Or.inr ⟨s, _, rfl, hs⟩⟩
      obtain ⟨T, hT1, hT2, hT3⟩ := hT
      simp only [insAt]
      generalize hr : ins lt cap k c = r at hc
      cases r with
      | ok c' =>
        simp only [Res.toList] at hc
        refine ⟨?_, by simp⟩
        rw [hT2 c', hT1, hc, insU_append_right lt k _ _ hT3]
      | split l sep r' =>
        simp only [Res.toList] at hc
        refine ⟨?_, by simp⟩
        simp only [List.take_zero, List.nil_append, List.drop_zero]
        have : inter (l :: r' :: cs) (sep :: is) = (toList l ++ sep :: toList r') ++ T := by
          simp only [inter]; rw [hT2 r']; simp
        rw [this, hT1, hc, insU_append_right lt k _ _ hT3]
    | c :: cs, [], i+1, hg, _ => by simp [GoodAt] at hg
    | c :: cs, s :: is, i+1, hg, hlen => by
      obtain ⟨hall, hs, hrest⟩ := hg
      have ih := insAt_refines k cs is i hrest (by simpa using hlen)
      simp only [insAt]
      generalize hr : insAt lt cap k cs i = r at ih
      obtain ⟨cs', o⟩ := r
      have hleft : insU lt k (inter (c :: cs) (s :: is)) = toList c ++ s :: insU lt k (inter cs is) := by
        simp only [inter]
        rw [insU_append_left lt k _ _ hall]
        have := insU_append_left lt k [s] (inter cs is) (by simpa using hs)
        simpa using congrArg (fun l => toList c ++ l) this
      cases o with
      | none =>
        simp only at ih ⊢
        refine ⟨?_, by simp [ih.2]⟩
        rw [hleft]; simp only [inter]; rw [ih.1]
      | some sep =>
        simp only at ih ⊢
        refine ⟨?_, by simp [ih.2]⟩
        rw [hleft]
        simp only [List.take_succ_cons, List.drop_succ_cons, List.cons_append, inter]
        rw [ih.1]
end

-- shape: every inner node has one more child than separators
mutual
  def Shape : Node α → Prop
    | leaf _ => True
    | inner items cs => cs.length = items.length + 1 ∧ ShapeAll cs
  def ShapeAll : List (Node α) → Prop
    | [] => True
    | c :: cs => Shape c ∧ ShapeAll cs
end

def le' (a b : α) : Prop := lt b a = false      -- a ≤ b

theorem upperIdx_cons (k s : α) (is : List α) :
    upperIdx lt (s :: is) k = if leK lt k s = true then upperIdx lt is k + 1 else 0 := by
  unfold upperIdx
  by_cases h : leK lt k s = true <;> simp [List.takeWhile_cons, h]

mutual
  /-- sortedness of the in-order list gives everything the descent relies on -/
  theorem good_of_sorted (htrans : ∀ a b c : α, le' lt a b → le' lt b c → le' lt a c) (k : α) :
      ∀ n : Node α, Shape n → (toList n).Pairwise (le' lt) → Good lt k n
    | leaf _, _, _ => by simp [Good]
    | inner items cs, hw, hs => by
      obtain ⟨hlen, hall⟩ := hw
      simp only [toList] at hs
      exact ⟨hlen, goodAt_of_sorted htrans k cs items hall hlen hs⟩
  theorem goodAt_of_sorted (htrans : ∀ a b c : α, le' lt a b → le' lt b c → le' lt a c) (k : α) :
      ∀ (cs : List (Node α)) (is : List α), ShapeAll cs → cs.length = is.length + 1 →
        (inter cs is).Pairwise (le' lt) → GoodAt lt k cs is (upperIdx lt is k)
    | [], _, _, hlen, _ => by simp at hlen
    | c :: cs, [], hall, _, hs => by
      obtain ⟨hc, _⟩ := hall
      simp only [inter] at hs
      have hsc := (List.pairwise_append.mp hs).1
      have : upperIdx lt ([] : List α) k = 0 := by simp [upperIdx]
      rw [this]
      exact ⟨good_of_sorted htrans k c hc hsc, Or.inl rfl⟩
    | c :: cs, s :: is, hall, hlen, hs => by
      obtain ⟨hc, hcs⟩ := hall
      simp only [inter] at hs
      obtain ⟨hsc, hstail, hcross⟩ := List.pairwise_append.mp hs
      rw [upperIdx_cons]
      by_cases hle : leK lt k s = true
      · simp only [hle, if_true]
        refine ⟨?_, hle, ?_⟩
        · intro x hx
          -- x ≤ s (sortedness) and s ≤ k (descent) ⇒ x ≤ k
          have h1 : le' lt x s := hcross x hx s (by simp)
          have h2 : le' lt s k := by simpa [leK, le'] using hle
          have h3 := htrans x s k h1 h2
          simpa [leK, le'] using h3
        · have htl : (inter cs is).Pairwise (le' lt) := (List.pairwise_cons.mp hstail).2
          exact goodAt_of_sorted htrans k cs is hcs (by simpa using hlen) htl
      · simp only [hle, if_false]
        refine ⟨good_of_sorted htrans k c hc hsc, Or.inr ⟨s, is, rfl, ?_⟩⟩
        simpa using hle
end

/-- insertion into any well-shaped tree whose in-order list is sorted (by a transitive ≤) is
    stable upper-bound insertion into that list -/
theorem ins_sorted (htrans : ∀ a b c : α, le' lt a b → le' lt b c → le' lt a c) (k : α) (n : Node α)
    (hw : Shape n) (hs : (toList n).Pairwise (le' lt)) :
    (ins lt cap k n).toList = insU lt k n.toList :=
  ins_refines lt cap k n (good_of_sorted lt htrans k n hw hs)
end Node
#print axioms Node.ins_sorted
