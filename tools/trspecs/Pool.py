# T1b translator, area Pool (property C09): the pure address / size arithmetic of momo::MemPool (MemPool.h) and the
# helper UIntMath::Ceil (Utility.h). Emitted to lean/Momo/Translated/Pool.lean; equivalences with the hand-written model
# (lean/Momo/Model/Pool.lean part (a)) in lean/Momo/Proof/TrEqPool.lean; `C09_…_translated` theorems in Props/C09.lean.
#
# Conventions: `Params::blockSize / blockAlignment / blockCount / cachedFreeBlockCount` become parameters of the defs
# (only those a function reads); `Byte*` is a 64-bit address; `internal::PtrCaster::ToUInt(p)` is the identity (`id`);
# `ptrdiff_t` is Lean `Int` with two's complement conversions (Tr.toI64 / Tr.ofI64, Model/TrBase.lean);
# sizeof(...) and UIntConst::maxAllocAlignment are the constants of Model/Pool.lean (compared with the build by the C09
# harness op `consts`). Reads of pool metadata (`pvGetFirstBlockIndex(buffer)`, the byte at `buffer`) and the answer of the
# memory manager (`MemManagerProxy::Allocate`) become parameters through CHECKED rewrites (`cut`): the translation fails
# when the rewritten text is no longer there. `pvNewBuffer` / `pvNewBlock1` are translated up to the first memory write
# (`stop_before`, checked as well).

IMPORTS = ["Momo.Model.Pool"]

_S, _A, _N, _C = ("blockSize", U64), ("blockAlignment", U64), ("blockCount", U64), ("cachedFreeBlockCount", U64)
_REN = {"Params::blockSize": "blockSize", "Params::blockAlignment": "blockAlignment", "Params::blockCount": "blockCount",
        "Params::cachedFreeBlockCount": "cachedFreeBlockCount"}
_CONSTS = {
    "internal::UIntConst::maxAllocAlignment": ("Pool.maxAllocAlignment", U64),
    "sizeof(BufferBytes)": ("Pool.sizeofBufferBytes.toNat", U64),
    "sizeof(Byte*)": ("Pool.sizeofPtr.toNat", U64),
    "sizeof(void*)": ("Pool.sizeofPtr.toNat", U64),
    "sizeof(uint16_t)": ("Pool.sizeofU16.toNat", U64),
}
_TOUINT = {"internal::PtrCaster::ToUInt": ("id", [U64], U64, [])}
_CEIL = ("pool_Ceil", [U64, U64], U64, [])
_ADDEND = ("pool_pvGetAlignmentAddend", [], U64, ["blockAlignment"])
_NEAR = ("pool_pvIsBufferBytesNear", [], "bool", ["blockAlignment"])
_SAN = ["blockSize", "blockAlignment", "blockCount"]
_FIRST = ("firstBlockIndex", "i8")           # the int8_t stored in the byte at `buffer` (pvGetFirstBlockIndex)
_CUT_FIRST = [(r"pvGetFirstBlockIndex\(buffer\)", "firstBlockIndex")]
_BLOCKS_END = ("pool_pvGetBlocksEndPosition", [U64], U64, _SAN + ["firstBlockIndex"])
_PREV = ("pool_pvGetPrevBufferPosition", [U64], U64, _SAN + ["firstBlockIndex"])
_NEXT = ("pool_pvGetNextBufferPosition", [U64], U64, _SAN + ["firstBlockIndex"])


def _f(lean, cxx, anchor, **kw):
    d = dict(lean=lean, prop="C09", cxx=cxx, header="MemPool.h", anchor=anchor, rename=_REN, consts=_CONSTS)
    d.update(kw)
    return d


FUNCS = [
    dict(lean="pool_Ceil", prop="C09", cxx="internal::UIntMath::Ceil", header="Utility.h",
         anchor=r"static constexpr UInt Ceil\(UInt value, UInt mod\) noexcept", params=[("value", U64), ("mod", U64)], ret=U64, lean_type="Nat"),
    _f("pool_GetBlockAlignment", "MemPoolConst::GetBlockAlignment",
       r"static constexpr size_t GetBlockAlignment\(size_t blockSize,\s*size_t maxAlignment = momo::internal::UIntConst::maxAlignment\) noexcept",
       params=[_S, ("maxAlignment", U64)], ret=U64, lean_type="Nat", recfuel=64,
       calls={"GetBlockAlignment": ("pool_GetBlockAlignment_fuel fuel", [U64, U64], U64, [])}),
    _f("pool_CorrectBlockSize", "MemPoolConst::CorrectBlockSize",
       r"static constexpr size_t CorrectBlockSize\(size_t blockSize, size_t blockAlignment,\s*size_t blockCount\) noexcept",
       params=[_S, _A, _N], ret=U64, lean_type="Nat", calls={"internal::UIntMath<>::Ceil": _CEIL}),
    _f("pool_pvUseCache", "MemPool::pvUseCache", r"bool pvUseCache\(\) const noexcept", params=[_C, _S], ret="bool", lean_type="Bool"),
    _f("pool_pvGetAlignmentAddend", "MemPool::pvGetAlignmentAddend", r"size_t pvGetAlignmentAddend\(\) const noexcept",
       params=[_A], ret=U64, lean_type="Nat"),
    _f("pool_pvGetBufferSize0", "MemPool::pvGetBufferSize0", r"size_t pvGetBufferSize0\(\) const noexcept", params=[_S, _A], ret=U64, lean_type="Nat"),
    _f("pool_pvGetBufferSize1", "MemPool::pvGetBufferSize1", r"size_t pvGetBufferSize1\(\) const noexcept", params=[_S, _A], ret=U64, lean_type="Nat",
       calls={"pvGetAlignmentAddend": _ADDEND}),
    _f("pool_pvIsBufferBytesNear", "MemPool::pvIsBufferBytesNear", r"bool pvIsBufferBytesNear\(\) const noexcept", params=[_A], ret="bool", lean_type="Bool"),
    _f("pool_pvGetBufferSize", "MemPool::pvGetBufferSize", r"size_t pvGetBufferSize\(\) const noexcept", params=[_S, _A, _N], ret=U64, lean_type="Nat",
       calls={"pvGetAlignmentAddend": _ADDEND, "pvIsBufferBytesNear": _NEAR}),
    _f("pool_pvGetBlock", "MemPool::pvGetBlock", r"Byte\* pvGetBlock\(Byte\* buffer, int8_t index\) const noexcept",
       params=[_S, _A, ("buffer", U64), ("index", "i8")], ret=U64, lean_type="Nat"),
    _f("pool_pvGetBlockIndex", "MemPool::pvGetBlockIndex", r"int8_t pvGetBlockIndex\(Byte\* block, Byte\*& buffer\) const noexcept",
       params=[_S, _A, _N, ("block", U64)], outs=[("buffer", U64)], ret="i8", lean_type="Int × Nat", calls=_TOUINT),
    _f("pool_pvNewBlock1", "MemPool::pvNewBlock1", r"Byte\* pvNewBlock1\(\)",
       params=[_A, ("buffer", U64)], outs=[("block", U64), ("offset", U64)], ret=None, lean_type="Nat × Nat",
       calls=dict(_TOUINT, **{"internal::UIntMath<uintptr_t>::Ceil": _CEIL}),
       cut=[(r"Byte\* buffer = MemManagerProxy::template Allocate<Byte>\(\s*GetMemManager\(\), pvGetBufferSize1\(\)\);", "")],
       stop_before=r"internal::MemCopyer::ToBuffer\(static_cast<uint16_t>\(offset\),",
       note="`buffer` = the answer of the memory manager; up to the write of the offset bytes; result (block, offset)"),
    _f("pool_pvNewBuffer", "MemPool::pvNewBuffer", r"MOMO_NOINLINE Byte\* pvNewBuffer\(\)",
       params=[_S, _A, _N, ("begin", U64)], outs=[("beginOffset", U64), ("block", U64), ("buffer", U64), ("blockIndex", "i8")],
       ret=None, lean_type="Nat × Nat × Nat × Int",
       calls=dict(_TOUINT, **{"internal::UIntMath<uintptr_t>::Ceil": _CEIL}),
       outcalls={"pvGetBlockIndex": ("pool_pvGetBlockIndex", _SAN, [U64], [U64], "i8")},
       cut=[(r"Byte\* begin = MemManagerProxy::template Allocate<Byte>\(\s*GetMemManager\(\), pvGetBufferSize\(\)\);", "")],
       stop_before=r"pvSetFirstBlockIndex\(buffer, blockIndex\);",
       note="`begin` = the answer of the memory manager; up to the first write into the buffer; result (beginOffset, block, buffer, blockIndex)"),
    _f("pool_pvGetBlocksEndPosition", "MemPool::pvGetBlocksEndPosition", r"Byte\* pvGetBlocksEndPosition\(Byte\* buffer\) const noexcept",
       params=[_S, _A, _N, _FIRST, ("buffer", U64)], ret=U64, lean_type="Nat", cut=_CUT_FIRST,
       note="`firstBlockIndex` = the byte at `buffer`"),
    _f("pool_pvGetBufferBytesPosition", "MemPool::pvGetBufferBytesPosition", r"Byte\* pvGetBufferBytesPosition\(Byte\* buffer\) const noexcept",
       params=[_S, _A, _N, _FIRST, ("buffer", U64)], ret=U64, lean_type="Nat",
       calls={"pvIsBufferBytesNear": _NEAR, "pvGetBlocksEndPosition": _BLOCKS_END}),
    _f("pool_pvGetPrevBufferPosition", "MemPool::pvGetPrevBufferPosition", r"Byte\* pvGetPrevBufferPosition\(Byte\* buffer\) const noexcept",
       params=[_S, _A, _N, _FIRST, ("buffer", U64)], ret=U64, lean_type="Nat",
       calls={"pvIsBufferBytesNear": _NEAR, "pvGetBlocksEndPosition": _BLOCKS_END}),
    _f("pool_pvGetNextBufferPosition", "MemPool::pvGetNextBufferPosition", r"Byte\* pvGetNextBufferPosition\(Byte\* buffer\) const noexcept",
       params=[_S, _A, _N, _FIRST, ("buffer", U64)], ret=U64, lean_type="Nat", calls={"pvGetPrevBufferPosition": _PREV}),
    _f("pool_pvGetBeginOffsetPosition", "MemPool::pvGetBeginOffsetPosition", r"Byte\* pvGetBeginOffsetPosition\(Byte\* buffer\) const noexcept",
       params=[_S, _A, _N, _FIRST, ("buffer", U64)], ret=U64, lean_type="Nat", calls={"pvGetNextBufferPosition": _NEXT}),
]
