# Area OpenBytes (C13 / C01): the byte-level state of the open-addressing buckets with one state byte
#   BucketOpenN1 (details/HashBucketOpenN1.h), BucketOpen8 (details/HashBucketOpen8.h)
# -> lean/Momo/Translated/OpenBytes.lean; equivalences with Momo.OpenB (lean/Momo/Model/OpenBytes.lean): lean/Momo/Proof/TrEqOpenBytes.lean.
#
# Conventions of this table
#   * `mData[maxCount + 1]` is a field of type "u8[]" (Lean `Nat → Nat`); the template parameters `maxCount`, `reverse` are
#     parameters of the defs; `emptyShortHash` comes from Momo.Extracted (re-extracted from the same header);
#   * the accessors that return a reference to a byte (`uint8_t& pvGetState()`, `uint8_t& pvGetShortHash(index)`) are tied in two
#     steps: their index expression is translated on its own (`openN1_stateIndex`, `openN1_shortHashIndex`: fragment
#     `return mData[(…)];`) and a use `pvGetShortHash(e)` / `++pvGetState()` inside AddCrt / Remove reads / writes
#     `mData[<that index def> e]` (translator key `elemcalls`);
#   * statements that construct, move or name items (`ptGetItemPtr`, the item creator / replacer, the returned iterator) are
#     erased by `cut` patterns that must match exactly once; the logical index of the removed item
#     (`UIntMath<>::Dist(pvMakeIterator(ptGetItemPtr(0)), iter)`) is the parameter `index`;
#   * BucketOpen8::Find: the two statements that compute the SWAR mask, the lane index of a candidate and the loop step are
#     pinned as fragments of the `#else` branch (the loop itself calls the item predicate and is modelled, `OpenB.swarLoop`);
#     `MOMO_CTZ64` is `OpenB.ctz 64` (specification of `__builtin_ctzll` / `std::countr_zero` for a non-zero argument).
#     The SSE2 branch consists of intrinsics (modelled by their specification, `OpenB.sseMask`); of it only the table fallback of
#     `pvCountTrailingZeros15` is translated.

U8A = "u8[]"
_H1 = "details/HashBucketOpenN1.h"
_H8 = "details/HashBucketOpen8.h"
_N1 = {"emptyShortHash": ("Extracted.openN1EmptyShortHash", "u8"), "sizeof(size_t)": ("8", U64)}
_TP = [("reverse", "bool"), ("maxCount", U64)]
_STATE = {"pvGetState": ("mData", "openN1_stateIndex", [], ["reverse", "maxCount"]),
          "pvGetShortHash": ("mData", "openN1_shortHashIndex", [U64], ["reverse", "maxCount"])}
_FIND8 = r"MOMO_FORCEINLINE Iterator Find\(Params&\s*,\s*const ItemPredicate& itemPred, size_t hashCode\)"

IMPORTS = ["Momo.Model.OpenBytes"]

FUNCS = [
    dict(lean="openN1_ptCalcShortHash", prop="C13", cxx="BucketOpenN1::ptCalcShortHash", header=_H1,
         anchor=r"static uint8_t ptCalcShortHash\(size_t hashCode\) noexcept", params=[("hashCode", U64)], ret="u8", lean_type="Nat",
         consts=_N1),
    dict(lean="openN1_pvGetState", prop="C13", cxx="BucketOpenN1::pvGetState() const", header=_H1,
         anchor=r"uint8_t pvGetState\(\) const noexcept", fields=[("mData", U8A)], params=_TP, ret="u8", lean_type="Nat"),
    dict(lean="openN1_stateIndex", prop="C13", cxx="BucketOpenN1::pvGetState() [index of the returned reference]", header=_H1,
         anchor=r"uint8_t& pvGetState\(\) noexcept", fragment=r"return mData\[(.*?)\];", params=_TP, ret=U64, lean_type="Nat"),
    dict(lean="openN1_shortHashIndex", prop="C13", cxx="BucketOpenN1::pvGetShortHash(index) [index of the returned reference]", header=_H1,
         anchor=r"uint8_t& pvGetShortHash\(size_t index\) noexcept", fragment=r"return mData\[(.*?)\];",
         params=_TP + [("index", U64)], ret=U64, lean_type="Nat"),
    dict(lean="openN1_itemIndex", prop="C01", cxx="BucketOpenN1::ptGetItemPtr(index) [slot of the returned item]", header=_H1,
         anchor=r"Item\* ptGetItemPtr\(size_t index\) noexcept", fragment=r"return &mItems\[(.*?)\];",
         params=_TP + [("index", U64)], ret=U64, lean_type="Nat"),
    dict(lean="openN1_pvGetCount", prop="C13", cxx="BucketOpenN1::pvGetCount", header=_H1,
         anchor=r"size_t pvGetCount\(\) const noexcept", fields=[("mData", U8A)], params=_TP, ret=U64, lean_type="Nat", consts=_N1,
         calls={"pvGetState": ("openN1_pvGetState", [], "u8", ["mData", "reverse", "maxCount"])}),
    dict(lean="openN1_IsFull", prop="C13", cxx="BucketOpenN1::IsFull", header=_H1,
         anchor=r"bool IsFull\(\) const noexcept", fields=[("mData", U8A)], params=_TP, ret="bool", lean_type="Bool", consts=_N1,
         calls={"pvGetState": ("openN1_pvGetState", [], "u8", ["mData", "reverse", "maxCount"])}),
    dict(lean="openN1_WasFull", prop="C13", cxx="BucketOpenN1::WasFull", header=_H1,
         anchor=r"bool WasFull\(\) const noexcept", ret="bool", lean_type="Bool"),
    dict(lean="openN1_AddCrt", prop="C13", cxx="BucketOpenN1::AddCrt (metadata)", header=_H1,
         anchor=r"Iterator AddCrt\(Params&\s*, ItemCreator&& itemCreator, size_t hashCode,\s*size_t\s*, size_t\s*\)\s*noexcept\(noexcept\(std::forward<ItemCreator>\(itemCreator\)\(std::declval<Item\*>\(\)\)\)\)",
         fields=[("mData", U8A)], writes=["mData"], params=_TP + [("hashCode", U64)], ret=None, lean_type="Nat → Nat", consts=_N1,
         cut=[(r"Item\*\s*newItem\s*=\s*ptGetItemPtr\(count\);", ""),
              (r"std::forward<ItemCreator>\(itemCreator\)\(newItem\);", ""),
              (r"return pvMakeIterator\(newItem\);", "return;")],
         elemcalls=_STATE,
         calls={"pvGetCount": ("openN1_pvGetCount", [], U64, ["mData", "reverse", "maxCount"]),
                "ptCalcShortHash": ("openN1_ptCalcShortHash", [U64], "u8", [])}),
    dict(lean="openN1_Remove", prop="C13", cxx="BucketOpenN1::Remove (metadata)", header=_H1,
         anchor=r"Iterator Remove\(Params&\s*, Iterator iter, ItemReplacer&& itemReplacer\)",
         fields=[("mData", U8A)], writes=["mData"], params=_TP + [("index", U64)], ret=None, lean_type="Nat → Nat", consts=_N1,
         cut=[(r"size_t\s+index\s*=\s*internal::UIntMath<>::Dist\(pvMakeIterator\(ptGetItemPtr\(0\)\),\s*iter\);", ""),
              (r"std::forward<ItemReplacer>\(itemReplacer\)\(\*ptGetItemPtr\(count - 1\),\s*\*ptGetItemPtr\(index\)\);", ""),
              (r"return iter;", "return;")],
         elemcalls=_STATE,
         calls={"pvGetCount": ("openN1_pvGetCount", [], U64, ["mData", "reverse", "maxCount"])}),
    dict(lean="openN1_Find_candidate", prop="C13", cxx="BucketOpenN1::Find [thisShortHashes[i] == shortHash]", header=_H1,
         anchor=r"MOMO_FORCEINLINE Iterator Find\(Params&\s*,\s*const ItemPredicate& itemPred, size_t hashCode\)",
         fragment=r"if \((thisShortHashes\[i\] == shortHash) && itemPred\(\*&mItems\[i\]\)\)",
         fields=[("thisShortHashes", U8A)], params=[("i", U64), ("shortHash", "u8")], ret="bool", lean_type="Bool"),
    # ------------------------------------------------------------------ BucketOpen8::Find, `#else` branch (no SSE2)
    dict(lean="open8_swarMask", prop="C13", cxx="BucketOpen8::Find [uint64_t xorHashes = ...; uint64_t mask = ...]", header=_H8,
         anchor=_FIND8,
         fragment=r"(?s)#else\s*uint64_t thisShortHashes = MemCopyer::FromBuffer<uint64_t>\(BucketOpenN1::ptGetData\(\)\);\s*(uint64_t xorHashes = [^;]*;\s*uint64_t mask = [^;]*;)\s*for \(; mask != 0; mask &= mask - 1\)",
         wrap="{ %s return mask; }", params=[("shortHash", "u8"), ("thisShortHashes", U64)], ret=U64, lean_type="Nat"),
    dict(lean="open8_swarIndex", prop="C13", cxx="BucketOpen8::Find [size_t index = static_cast<size_t>(MOMO_CTZ64(mask)) >> 3]", header=_H8,
         anchor=_FIND8, fragment=r"size_t index = (static_cast<size_t>\(MOMO_CTZ64\(mask\)\) >> \d+);",
         params=[("mask", U64)], ret=U64, lean_type="Nat", calls={"MOMO_CTZ64": ("OpenB.ctz", [U64], "int", ["64"])}),
    dict(lean="open8_swarNext", prop="C13", cxx="BucketOpen8::Find [for (; mask != 0; mask &= mask - 1), uint64_t mask]", header=_H8,
         anchor=_FIND8, fragment=r"(?s)uint64_t mask = [^;]*;\s*for \(; mask != 0; (mask &= mask - 1)\)",
         wrap="{ %s; return mask; }", params=[("mask", U64)], ret=U64, lean_type="Nat"),
    dict(lean="open8_swarContinue", prop="C13", cxx="BucketOpen8::Find [for (; mask != 0; ...), uint64_t mask]", header=_H8,
         anchor=_FIND8, fragment=r"(?s)uint64_t mask = [^;]*;\s*for \(; (mask != 0); mask &= mask - 1\)",
         params=[("mask", U64)], ret="bool", lean_type="Bool"),
    dict(lean="open8_ctz15_table", prop="C13", cxx="BucketOpen8::pvCountTrailingZeros15 [table variant, no MOMO_CTZ32]", header=_H8,
         anchor=r"static size_t pvCountTrailingZeros15\(uint32_t mask\) noexcept",
         fragment=r"(?s)#else\s*(static const uint8_t tab\[127\] =.*?return size_t\{tab\[mask - 1\]\};)\s*#endif",
         wrap="{ %s }", params=[("mask", "u32")], ret=U64, lean_type="Nat"),
]
