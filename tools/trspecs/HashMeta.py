# Area HashMeta (C12): the byte-level hash metadata of the buckets that keep hash parts
#   BucketLimP4 (details/HashBucketLimP4.h), BucketOpen2N2 (details/HashBucketOpen2N2.h), BucketOne (details/HashBucketOne.h)
# -> lean/Momo/Translated/HashMeta.lean; equivalences with Momo.HashMeta.{P4,O2,One}: lean/Momo/Proof/TrEqHashMeta.lean.
#
# Conventions of this table
#   * byte arrays (`mShortHashes`, `mHashData.shortHashes`, `mHashData.hashProbes`) are fields of type "u8[]" (Lean `Nat → Nat`);
#   * template parameters / class constants (`useHashCodePartGetter`, `hashCount`, `maxCount`) are parameters of the defs,
#     `maskEmpty`, `emptyHashProbe`, `logBucketCountStep`, `logBucketCountAddend`, `hashCodeShift` come from Momo.Extracted
#     (re-extracted from the same headers by tools/extract.py);
#   * the position of an element inside the bucket (`index = UIntMath<>::Dist(items, iter)`: pointer arithmetic on the item
#     array) is a parameter; the statements that compute it / construct, move or destroy items / touch the pointer state are
#     erased by the `cut` patterns (each must match exactly once) listed with each function (they do not touch the metadata bytes). If the erased shape
#     changes, what is left no longer parses and the function is reported as not translatable.
#   * `hashCodeFullGetter()` is the parameter `full`.

U8A = "u8[]"
_ERASE_INDEX_P4 = [(r"Item\*\s*items\s*=\s*mPtrState\.GetPointer\(\);", ""),
                   (r"size_t\s+index\s*=\s*UIntMath<>::Dist\(items,\s*iter\);", "")]
_P4 = {"maskEmpty": ("Extracted.limp4MaskEmpty", "u8"), "emptyHashProbe": ("Extracted.limp4EmptyHashProbe", "u8"),
       "logBucketCountStep": ("Extracted.limp4LogStep", U64), "logBucketCountAddend": ("Extracted.limp4LogAddend", U64),
       "hashCodeShift": ("(64 - Extracted.limp4ShortHashBits)", U64)}
_O2 = {"emptyHashProbe": ("Extracted.open2n2EmptyHashProbe", "u8"), "emptyShortHash": ("HashMeta.O2.emptyShortHash", "u8"),
       "logBucketCountStep": ("Extracted.open2n2LogStep", U64), "logBucketCountAddend": ("Extracted.open2n2LogAddend", U64),
       "hashCodeShift": ("(64 - 8 + Extracted.open2n2HashShiftAddend)", U64)}
# BucketOpen2N2<…, useHashCodePartGetter = true>: `ShortHash` = uint8_t; `mHashData.x` -> `x`
_O2PRE = [(r"\bShortHash\b", "uint8_t"), (r"mHashData\.", "")]

IMPORTS = ["Momo.Model.HashMeta"]

FUNCS = [
    # ------------------------------------------------------------------ BucketLimP4
    dict(lean="limp4_pvCalcShortHash", prop="C12", cxx="BucketLimP4::pvCalcShortHash", header="details/HashBucketLimP4.h",
         anchor=r"static uint8_t pvCalcShortHash\(size_t hashCode\) noexcept", params=[("hashCode", U64)], ret="u8", lean_type="Nat",
         consts=_P4),
    dict(lean="limp4_pvGetProbeShift", prop="C12", cxx="BucketLimP4::pvGetProbeShift", header="details/HashBucketLimP4.h",
         anchor=r"static size_t pvGetProbeShift\(size_t logBucketCount\) noexcept", params=[("logBucketCount", U64)], ret=U64,
         lean_type="Nat", consts=_P4),
    dict(lean="limp4_pvSetHashProbe", prop="C12", cxx="BucketLimP4::pvSetHashProbe", header="details/HashBucketLimP4.h",
         anchor=r"void pvSetHashProbe\(size_t index, size_t hashCode, size_t logBucketCount,\s*size_t probe\) noexcept",
         params=[("useHashCodePartGetter", "bool"), ("hashCount", U64), ("index", U64), ("hashCode", U64), ("logBucketCount", U64), ("probe", U64)],
         fields=[("mShortHashes", U8A)], writes=["mShortHashes"], ret=None, lean_type="Nat → Nat", consts=_P4,
         calls={"pvGetProbeShift": ("limp4_pvGetProbeShift", [U64], U64, [])}),
    dict(lean="limp4_pvGetCount", prop="C12", cxx="BucketLimP4::pvGetCount", header="details/HashBucketLimP4.h",
         anchor=r"size_t pvGetCount\(\) const noexcept", fields=[("mShortHashes", U8A)], ret=U64, lean_type="Nat", consts=_P4),
    dict(lean="limp4_IsFull", prop="C12", cxx="BucketLimP4::IsFull", header="details/HashBucketLimP4.h",
         anchor=r"bool IsFull\(\) const noexcept", params=[("maxCount", U64)], fields=[("mShortHashes", U8A)], ret="bool",
         lean_type="Bool", consts=_P4),
    dict(lean="limp4_GetHashCodePart", prop="C12", cxx="BucketLimP4::GetHashCodePart", header="details/HashBucketLimP4.h",
         anchor=r"size_t GetHashCodePart\(const HashCodeFullGetter& hashCodeFullGetter, Iterator iter,\s*size_t bucketIndex, size_t logBucketCount, size_t newLogBucketCount\)",
         params=[("useHashCodePartGetter", "bool"), ("hashCount", U64), ("index", U64), ("full", U64), ("bucketIndex", U64),
                 ("logBucketCount", U64), ("newLogBucketCount", U64)],
         fields=[("mShortHashes", U8A)], ret=U64, lean_type="Nat", consts=_P4, cut=_ERASE_INDEX_P4,
         accessors={"hashCodeFullGetter": "full"},
         calls={"pvGetProbeShift": ("limp4_pvGetProbeShift", [U64], U64, [])}),
    # the `else` block (count > 1) of Remove: the byte compaction. `count = pvGetCount()` and `index` are parameters.
    dict(lean="limp4_Remove_compact", prop="C12", cxx="BucketLimP4::Remove (else block: count > 1)", header="details/HashBucketLimP4.h",
         anchor=r"(?s)Iterator Remove\(Params& params, Iterator iter, ItemReplacer&& itemReplacer\)\s*\{.*?pvSetEmpty\(memPoolIndex\);\s*return nullptr;\s*\}\s*else(?=\s*\{)",
         params=[("useHashCodePartGetter", "bool"), ("hashCount", U64), ("count", U64), ("index", U64)],
         fields=[("mShortHashes", U8A)], writes=["mShortHashes"], ret=None, lean_type="Nat → Nat", consts=_P4,
         cut=[(r"size_t\s+index\s*=\s*UIntMath<>::Dist\(items,\s*iter\);", ""),
              (r"std::forward<ItemReplacer>\(itemReplacer\)\(items\[count - 1\],\s*\*iter\);", ""),
              (r"pvSetPtrState\(items,\s*memPoolIndex\);", ""), (r"return iter;", "return;")]),
    # ------------------------------------------------------------------ BucketOpen2N2 (useHashCodePartGetter = true: ShortHash = uint8_t)
    dict(lean="open2n2_pvCalcShortHash", prop="C12", cxx="BucketOpen2N2::pvCalcShortHash", header="details/HashBucketOpen2N2.h",
         anchor=r"static ShortHash pvCalcShortHash\(size_t hashCode\) noexcept", params=[("hashCode", U64)], ret="u8", lean_type="Nat",
         consts=_O2, pre=_O2PRE),
    dict(lean="open2n2_pvGetProbeShift", prop="C12", cxx="BucketOpen2N2::pvGetProbeShift", header="details/HashBucketOpen2N2.h",
         anchor=r"static size_t pvGetProbeShift\(size_t logBucketCount\) noexcept", params=[("logBucketCount", U64)], ret=U64,
         lean_type="Nat", consts=_O2),
    dict(lean="open2n2_pvGetCount", prop="C12", cxx="BucketOpen2N2::pvGetCount", header="details/HashBucketOpen2N2.h",
         anchor=r"size_t pvGetCount\(\) const noexcept", fields=[("mState_1", "u8")], ret=U64, lean_type="Nat"),
    dict(lean="open2n2_IsFull", prop="C12", cxx="BucketOpen2N2::IsFull", header="details/HashBucketOpen2N2.h",
         anchor=r"bool IsFull\(\) const noexcept", fields=[("shortHashes", U8A)], ret="bool", lean_type="Bool", consts=_O2, pre=_O2PRE),
    dict(lean="open2n2_AddCrt", prop="C12", cxx="BucketOpen2N2::AddCrt (metadata)", header="details/HashBucketOpen2N2.h",
         anchor=r"Iterator AddCrt\(Params&\s*, ItemCreator&& itemCreator, size_t hashCode,\s*size_t logBucketCount, size_t probe\)\s*noexcept\(noexcept\(std::forward<ItemCreator>\(itemCreator\)\(std::declval<Item\*>\(\)\)\)\)",
         params=[("useHashCodePartGetter", "bool"), ("maxCount", U64), ("hashCode", U64), ("logBucketCount", U64), ("probe", U64)],
         fields=[("shortHashes", U8A), ("hashProbes", U8A), ("mState_1", "u8")], writes=["shortHashes", "hashProbes", "mState_1"],
         ret=None, lean_type="(Nat → Nat) × (Nat → Nat) × Nat", consts=_O2,
         pre=_O2PRE, cut=[(r"Item\*\s*newItem\s*=\s*&mItems \+ maxCount - 1 - count;", ""),
                       (r"std::forward<ItemCreator>\(itemCreator\)\(newItem\);", ""),
                       (r"return Iterator\(newItem \+ 1\);", "return;")],
         calls={"pvGetCount": ("open2n2_pvGetCount", [], U64, ["mState_1"]),
                "pvCalcShortHash": ("open2n2_pvCalcShortHash", [U64], "u8", []),
                "pvGetProbeShift": ("open2n2_pvGetProbeShift", [U64], U64, [])}),
    dict(lean="open2n2_Remove", prop="C12", cxx="BucketOpen2N2::Remove (metadata)", header="details/HashBucketOpen2N2.h",
         anchor=r"Iterator Remove\(Params&\s*, Iterator iter, ItemReplacer&& itemReplacer\)",
         params=[("useHashCodePartGetter", "bool"), ("maxCount", U64), ("index", U64)],
         fields=[("shortHashes", U8A), ("hashProbes", U8A), ("mState_1", "u8")], writes=["shortHashes", "hashProbes", "mState_1"],
         ret=None, lean_type="(Nat → Nat) × (Nat → Nat) × Nat", consts=_O2,
         pre=_O2PRE, cut=[(r"size_t\s+index\s*=\s*UIntMath<>::Dist\(&mItems,\s*std::addressof\(\*iter\)\);", ""),
                       (r"std::forward<ItemReplacer>\(itemReplacer\)\(\(&mItems\)\[maxCount - count\],\s*\(&mItems\)\[index\]\);", ""),
                       (r"return iter;", "return;")],
         calls={"pvGetCount": ("open2n2_pvGetCount", [], U64, ["mState_1"])}),
    dict(lean="open2n2_GetHashCodePart", prop="C12", cxx="BucketOpen2N2::GetHashCodePart", header="details/HashBucketOpen2N2.h",
         anchor=r"size_t GetHashCodePart\(const HashCodeFullGetter& hashCodeFullGetter, Iterator iter,\s*size_t bucketIndex, size_t logBucketCount, size_t newLogBucketCount\)",
         params=[("useHashCodePartGetter", "bool"), ("index", U64), ("full", U64), ("bucketIndex", U64),
                 ("logBucketCount", U64), ("newLogBucketCount", U64)],
         fields=[("shortHashes", U8A), ("hashProbes", U8A)], ret=U64, lean_type="Nat", consts=_O2,
         pre=_O2PRE, cut=[(r"size_t\s+index\s*=\s*UIntMath<>::Dist\(&mItems,\s*std::addressof\(\*iter\)\);", "")],
         accessors={"hashCodeFullGetter": "full"},
         calls={"pvGetProbeShift": ("open2n2_pvGetProbeShift", [U64], U64, [])}),
    # ------------------------------------------------------------------ BucketOne: HashState = uint8_t / uint16_t / uint32_t (first
    # overload of pvGetHashState, stateSize = sizeof(HashState) < sizeof(size_t)) and uint64_t (second overload)
] + [
    dict(lean="one_pvGetHashState%d" % n, prop="C12", cxx="BucketOne::pvGetHashState<stateSize = %d>" % n, header="details/HashBucketOne.h",
         anchor=r"HashState> pvGetHashState\(size_t hashCode\) noexcept", occurrence=0, params=[("hashCode", U64)], ret="u%d" % (8 * n),
         lean_type="Nat", consts={"stateSize": (str(n), U64), "sizeof(size_t)": ("8", U64)}, pre=[(r"\bHashState\b", "uint%d_t" % (8 * n))])
    for n in (1, 2, 4)
] + [
    dict(lean="one_pvGetHashState8", prop="C12", cxx="BucketOne::pvGetHashState<stateSize = 8>", header="details/HashBucketOne.h",
         anchor=r"HashState> pvGetHashState\(size_t hashCode\) noexcept", occurrence=1, params=[("hashCode", U64)], ret=U64,
         lean_type="Nat", pre=[(r"\bHashState\b", "uint64_t")]),
    # `mHashState >> 1` has the same value for every width of HashState (integer promotion of a non-negative value), so the
    # state is passed as a 64-bit value; `sizeof(HashState)` is the parameter `stateSize`
    dict(lean="one_GetHashCodePart", prop="C12", cxx="BucketOne::GetHashCodePart", header="details/HashBucketOne.h",
         anchor=r"size_t GetHashCodePart\(const HashCodeFullGetter& hashCodeFullGetter, Iterator iter,\s*size_t\s*, size_t\s*, size_t\s*\)",
         params=[("stateSize", U64), ("full", U64)], fields=[("mHashState", U64)], ret=U64, lean_type="Nat",
         consts={"sizeof(HashState)": ("stateSize", U64), "sizeof(size_t)": ("8", U64)},
         cut=[(r"\(void\)iter;", ""), (r"MOMO_ASSERT\(iter == &mItemBuffer\);", "")],
         accessors={"hashCodeFullGetter": "full"}),
]
