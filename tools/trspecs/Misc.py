# T1b translator, area Misc: pure integer kernels of
#   HashSorter.h / RadixSorter.h (C17), Utility.h UIntMath (C16 Log2, C18 Ceil), DataColumn.h (C18), details/ArrayBucket.h (C08),
#   SegmentedArray.h (C16: the one function the base table does not have).
# Emitted to lean/Momo/Translated/Misc.lean; equivalences with the hand-written models (Model/Sort.lean, Seg.lean, Columns.lean,
# MMap.lean) in lean/Momo/Proof/TrEqMisc2{Sort,Math,Col,Bucket}.lean (one file per property, so that a changed function only
# breaks the property it belongs to); `Cxx_…_translated` theorems in Props/C17.lean, C16.lean, C18.lean, C08.lean.
#
# Conventions: template / class constants the code reads (`radixSize`, `logVertexCount`, `maxFastCount`, `logInitialItemCount`)
# become parameters of the defs; `sizeof(Code)` / `sizeof(ColumnCode)` become the parameters `sizeofCode` / `sizeofColumnCode`
# (bytes); `sizeof(HashCode)` = `sizeof(size_t)` = 8 (the 64-bit build every model of /verif is about). `Code` / `ColumnCode`
# arguments are 64-bit values (the instantiation HashSorter / DataColumnList use; narrower codes promote to the same values).
# The state byte behind `mPtr` (`pvGetState()`) is the field `state`.
# Functions that are not pure integer functions as a whole (pvFindHash, the searches, RadixSorter::Sort / pvRadixSort,
# DataColumnList::pvAdd / pvAddEdges / pvFillAddends / pvGetOffset, ArrayBucket::AddBackCrt / RemoveBack) contribute their index /
# size arithmetic as `fragment`s: a regex that must match exactly once inside the named function; the captured expression or
# statement group is translated, its free variables are the parameters.

IMPORTS = []

_SZ8 = {"sizeof(HashCode)": ("8", U64), "sizeof(size_t)": ("8", U64)}
_MULTSHIFT = {"pvMultShift": ("hs_pvMultShift", [U64, U64], U64, [])}
_FINDHASH = r"static FindResult<Iterator> pvFindHash\(Iterator begin, size_t count,\s*HashCode itemHash, const IterHashFunc& iterHashFunc\)"
_EXPSEARCH = r"static FindResult<Iterator> pvExponentialSearch\(Iterator begin, size_t count,\s*const IterComparer& iterComparer\)"
_BINSEARCH = r"static FindResult<Iterator> pvBinarySearch\(Iterator begin, size_t count,\s*const IterComparer& iterComparer\)"
_RS_CLASS = r"class RadixSorter\s*(?=\{)"
_RS_SORT = (r"static void Sort\(Iterator begin, size_t count, const CodeGetter& codeGetter,\s*"
            r"const IterSwapper& iterSwapper, const GroupFunc& groupFunc\)")
_RS_RADIXSORT = (r"static void pvRadixSort\(Iterator begin, size_t count, const CodeGetter& codeGetter,\s*"
                 r"const IterSwapper& iterSwapper, const GroupFunc& groupFunc, size_t shift\)")
_R = ("radixSize", U64)


def _hs(lean, cxx, anchor, **kw):
    d = dict(lean=lean, prop="C17", cxx=cxx, header="HashSorter.h", anchor=anchor, ret=U64, lean_type="Nat")
    d.update(kw)
    return d


def _rs(lean, cxx, anchor, **kw):
    d = dict(lean=lean, prop="C17", cxx=cxx, header="RadixSorter.h", anchor=anchor, ret=U64, lean_type="Nat")
    d.update(kw)
    return d


_UM_CEIL = {"internal::UIntMath<>::Ceil": ("um_Ceil", [U64, U64], U64, [])}
_COL_ADD = r"void pvAdd\(const bool\* columnMutables, const Column<Items>&\.\.\. columns\)"
_COL_FILL = (r"static bool pvFillAddends\(Addends& addends, Graph& graph, size_t& offset, size_t& maxAlignment,\s*"
             r"size_t codeParam, const ColumnCode\* columnCodes\)")
_COL_ADDEDGES = (r"static void pvAddEdges\(Graph& graph, size_t& offset, size_t& maxAlignment, size_t codeParam,\s*"
                 r"const ColumnCode\* columnCodes\)")


def _col(lean, cxx, anchor, **kw):
    d = dict(lean=lean, prop="C18", cxx=cxx, header="DataColumn.h", anchor=anchor, ret=U64, lean_type="Nat")
    d.update(kw)
    return d


_STATE = [("state", "u8")]
_ACC = {"pvGetState": "state"}
_AB_ADD = r"void AddBackCrt\(Params& params, ItemCreator&& itemCreator\)"
_AB_REMOVE = r"void RemoveBack\(Params& params\) noexcept"


def _ab(lean, cxx, anchor, **kw):
    d = dict(lean=lean, prop="C08", cxx=cxx, header="details/ArrayBucket.h", anchor=anchor, ret=U64, lean_type="Nat")
    d.update(kw)
    return d


FUNCS = [
    # ------------------------------------------------------------------ C17: HashSorter.h
    _hs("hs_pvMultShift", "HashSorter::pvMultShift", r"static size_t pvMultShift\(HashCode value1, size_t value2\) noexcept",
        params=[("value1", U64), ("value2", U64)], consts=_SZ8),
    _hs("hs_pvCompare", "HashSorter::pvCompare", r"static int pvCompare\(HashCode value1, HashCode value2\) noexcept",
        params=[("value1", U64), ("value2", U64)], ret="i32", lean_type="Int"),
    _hs("hs_findHash_start", "HashSorter::pvFindHash [size_t middleIndex = ...]", _FINDHASH,
        fragment=r"size_t middleIndex = (pvMultShift\(itemHash, count\));", params=[("itemHash", U64), ("count", U64)], calls=_MULTSHIFT),
    _hs("hs_findHash_up", "HashSorter::pvFindHash [middleIndex += ...]", _FINDHASH,
        fragment=r"(middleIndex \+= pvMultShift\(itemHash - middleHash, count\);)", wrap="{ %s return middleIndex; }",
        params=[("middleIndex", U64), ("itemHash", U64), ("middleHash", U64), ("count", U64)], calls=_MULTSHIFT),
    _hs("hs_findHash_diff", "HashSorter::pvFindHash [size_t diff = ...]", _FINDHASH,
        fragment=r"size_t diff = (pvMultShift\(middleHash - itemHash, count\));",
        params=[("itemHash", U64), ("middleHash", U64), ("count", U64)], calls=_MULTSHIFT),
    _hs("hs_findHash_downBreak", "HashSorter::pvFindHash [if (leftIndex + diff > middleIndex) break]", _FINDHASH,
        fragment=r"if \((leftIndex \+ diff > middleIndex)\)\s*break;", params=[("leftIndex", U64), ("diff", U64), ("middleIndex", U64)],
        ret="bool", lean_type="Bool"),
    _hs("hs_findHash_down", "HashSorter::pvFindHash [middleIndex -= diff]", _FINDHASH,
        fragment=r"(middleIndex -= diff;)", wrap="{ %s return middleIndex; }", params=[("middleIndex", U64), ("diff", U64)]),
    _hs("hs_expSearch_next", "HashSorter::pvExponentialSearch [i = i * 2 + 2]", _EXPSEARCH,
        fragment=r"for \(size_t i = 0; i < count; (i = i \* 2 \+ 2)\)", wrap="{ %s; return i; }", params=[("i", U64)]),
    _hs("hs_binSearch_middle", "HashSorter::pvBinarySearch [size_t middleIndex = ...]", _BINSEARCH,
        fragment=r"size_t middleIndex = (\(leftIndex \+ rightIndex\) / 2);", params=[("leftIndex", U64), ("rightIndex", U64)]),
    # ------------------------------------------------------------------ C17: RadixSorter.h
    _rs("rs_pvGetRadix", "RadixSorter::pvGetRadix", r"static size_t pvGetRadix\(Code code, size_t shift\) noexcept",
        params=[_R, ("code", U64), ("shift", U64)]),
    _rs("rs_radixCount", "RadixSorter [radixCount]", _RS_CLASS,
        fragment=r"static const size_t radixCount = (size_t\{1\} << radixSize);", params=[_R]),
    _rs("rs_selectionSortMaxCount", "RadixSorter [selectionSortMaxCount]", _RS_CLASS,
        fragment=r"static const size_t selectionSortMaxCount = (size_t\{1\} << \(radixSize / 2 \+ 1\));", params=[_R]),
    _rs("rs_Sort_shift", "RadixSorter::Sort [initial shift]", _RS_SORT,
        fragment=r"groupFunc,\s*(\(8 \* sizeof\(Code\) > radixSize\) \? 8 \* sizeof\(Code\) - radixSize : 0)\);",
        params=[_R, ("sizeofCode", U64)], consts={"sizeof(Code)": ("sizeofCode", U64)}),
    _rs("rs_nextShift", "RadixSorter::pvRadixSort [nextShift]", _RS_RADIXSORT,
        fragment=r"size_t nextShift = (\(shift > radixSize\) \? shift - radixSize : 0);", params=[_R, ("shift", U64)]),
    # ------------------------------------------------------------------ C16: Utility.h UIntMath::Log2, SegmentedArray.h
    dict(lean="um_pvLog2_64", prop="C16", cxx="internal::UIntMath<uint64_t>::pvLog2", header="Utility.h",
         anchor=r"static EnableIf<size == 8,\s*UInt> pvLog2\(UInt value\) noexcept", params=[("value", U64)], ret=U64, lean_type="Nat"),
    dict(lean="um_Log2", prop="C16", cxx="internal::UIntMath<size_t>::Log2", header="Utility.h",
         anchor=r"static UInt Log2\(UInt value\) noexcept", params=[("value", U64)], ret=U64, lean_type="Nat",
         calls={"pvLog2": ("um_pvLog2_64", [U64], U64, [])}),
    dict(lean="um_pvLog2_32", prop="C16", cxx="internal::UIntMath<uint32_t>::pvLog2", header="Utility.h",
         anchor=r"static EnableIf<size == 4,\s*UInt> pvLog2\(UInt value\) noexcept", pre=[(r"\bUInt\b", "uint32_t")],
         params=[("value", "u32")], ret="u32", lean_type="Nat"),
    dict(lean="segCnst_GetItemCount", prop="C16", cxx="SegmentedArraySettings<cnst>::GetItemCount", header="SegmentedArray.h",
         anchor=r"static size_t GetItemCount\(size_t\s+\) noexcept", params=[("logInitialItemCount", U64)], ret=U64, lean_type="Nat"),
    # ------------------------------------------------------------------ C18: Utility.h UIntMath::Ceil, DataColumn.h
    dict(lean="um_Ceil", prop="C18", cxx="internal::UIntMath::Ceil", header="Utility.h",
         anchor=r"static constexpr UInt Ceil\(UInt value, UInt mod\) noexcept", params=[("value", U64), ("mod", U64)], ret=U64, lean_type="Nat"),
    _col("col_GetVertices", "DataColumnTraits::GetVertices",
         r"MOMO_FORCEINLINE static std::pair<size_t, size_t> GetVertices\(\s*ColumnCode columnCode, size_t codeParam\) noexcept",
         params=[("logVertexCount", U64), ("sizeofColumnCode", U64), ("columnCode", U64), ("codeParam", U64)],
         consts={"sizeof(ColumnCode)": ("sizeofColumnCode", U64)}, ret=[U64, U64], lean_type="Nat × Nat"),
    _col("col_maxColumnCount", "DataColumnTraits [maxColumnCount]", r"class DataColumnTraits\s*(?=\{)",
         fragment=r"static const size_t maxColumnCount = (size_t\{1\} << \(logVertexCount - 1\));", params=[("logVertexCount", U64)]),
    _col("col_addEdges_align", "DataColumnList::pvAddEdges [offset = Ceil(offset, alignment)]", _COL_ADDEDGES,
         fragment=r"(offset = internal::UIntMath<>::Ceil\(offset, alignment\);)", wrap="{ %s return offset; }",
         params=[("alignment", U64), ("offset", U64)], calls=_UM_CEIL),
    _col("col_addEdges_advance", "DataColumnList::pvAddEdges [offset += size; maxAlignment = max(...)]", _COL_ADDEDGES,
         fragment=r"(offset \+= size;\s*maxAlignment = std::minmax\(maxAlignment, size_t\{alignment\}\)\.second;)", wrap="{ %s }",
         params=[("size", U64), ("alignment", U64), ("offset", U64), ("maxAlignment", U64)],
         outs=[("offset", U64), ("maxAlignment", U64)], ret=None, lean_type="Nat × Nat"),
    _col("col_rootAddend", "DataColumnList::pvFillAddends [addends[v] = ...]", _COL_FILL,
         fragment=r"addends\[v\] = (size_t\{1\} << \(8 \* sizeof\(size_t\) - 1\));", params=[], consts=_SZ8),
    _col("col_mutBytes", "DataColumnList::pvAdd [mMutableOffsets.SetCount(...)]", _COL_ADD,
         fragment=r"mMutableOffsets\.SetCount\((\(offset \+ 7\) / 8), uint8_t\{0\}\);", params=[("offset", U64)]),
    _col("col_pvGetOffset_sum", "DataColumnList::pvGetOffset [return addend1 + addend2]",
         r"MOMO_FORCEINLINE size_t pvGetOffset\(ColumnCode columnCode\) const noexcept",
         fragment=r"return (addend1 \+ addend2);", params=[("addend1", U64), ("addend2", U64)]),
    # ------------------------------------------------------------------ C08: details/ArrayBucket.h
    _ab("ab_pvMakeState", "ArrayBucket::pvMakeState", r"static uint8_t pvMakeState\(size_t memPoolIndex, size_t count\) noexcept",
        params=[("memPoolIndex", U64), ("count", U64)], ret="u8"),
    _ab("ab_pvGetFastMemPoolIndex", "ArrayBucket::pvGetFastMemPoolIndex", r"static size_t pvGetFastMemPoolIndex\(size_t count\) noexcept",
        params=[("count", U64)]),
    _ab("ab_pvGetMemPoolIndex", "ArrayBucket::pvGetMemPoolIndex", r"size_t pvGetMemPoolIndex\(\) const noexcept",
        fields=_STATE, accessors=_ACC),
    _ab("ab_pvGetFastCount", "ArrayBucket::pvGetFastCount", r"size_t pvGetFastCount\(\) const noexcept",
        fields=_STATE, accessors=_ACC, calls={"pvGetMemPoolIndex": ("ab_pvGetMemPoolIndex", [], U64, ["state"])}),
    _ab("ab_AddBack_incState", "ArrayBucket::AddBackCrt [pvSetState(pvGetState() + 1)]", _AB_ADD,
        fragment=r"pvSetState\((pvGetState\(\) \+ uint8_t\{1\})\);", fields=_STATE, accessors=_ACC, ret="u8"),
    _ab("ab_AddBack_heapCap", "ArrayBucket::AddBackCrt [Array::CreateCap(maxFastCount * 2, ...)]", _AB_ADD,
        fragment=r"Array::CreateCap\((maxFastCount \* 2),", params=[("maxFastCount", U64)]),
    _ab("ab_RemoveBack_decState", "ArrayBucket::RemoveBack [pvSetState(pvGetState() - 1)]", _AB_REMOVE,
        fragment=r"pvSetState\((pvGetState\(\) - uint8_t\{1\})\);", fields=_STATE, accessors=_ACC, ret="u8"),
    _ab("ab_RemoveBack_shrinkCond", "ArrayBucket::RemoveBack [if (2 < count && count <= array.GetCapacity() / 4)]", _AB_REMOVE,
        fragment=r"if \((2 < count && count <= array\.GetCapacity\(\) / 4)\)", pre=[(r"array\.GetCapacity\(\)", "capacity")],
        params=[("count", U64), ("capacity", U64)], ret="bool", lean_type="Bool"),
    _ab("ab_RemoveBack_shrinkCap", "ArrayBucket::RemoveBack [array.Shrink(count * 2)]", _AB_REMOVE,
        fragment=r"array\.Shrink\((count \* 2)\);", params=[("count", U64)]),
]
