# T1b translator, area Wave3 (third wave, property C12): class constants and small helpers of the hash buckets that the
# metadata models (Momo.HashMeta) read only through Momo.Extracted or take as parameters:
#   details/HashBucketLimP4.h (hashCodeShift, maskEmpty, emptyHashProbe, WasFull), details/HashBucketOpen2N2.h (hashCodeShift, WasFull),
#   details/HashBucketOne.h (hashCodeShift), details/HashBucketLim4.h (maxCount, stateNull, stateNullWasFull, pvGetMemPoolIndex, pvSet),
#   Utility.h internal::UIntMath::DivByConst (quotient / remainder; used by BucketLim4::pvGetData and BucketLimP).
# Emitted to lean/Momo/Translated/Wave3.lean; equivalences with Momo.HashMeta / arithmetic facts: lean/Momo/Proof/TrEqWave3.lean.
# Conventions as in Wave2.py: class / template constants become parameters, `sizeof(...)` comes from `consts`, parts of bodies are
# `fragment`s (regex with one group that must match exactly once inside the body found by `anchor`).

IMPORTS = ["Momo.Model.HashMeta"]

_SIZEOF = {"sizeof(size_t)": ("8", U64), "sizeof(ShortHash)": ("1", U64)}
_P4_CLASS = r"class BucketLimP4 : public BucketBase\s*(?=\{)"
_O2_CLASS = r"class BucketOpen2N2 : public BucketBase\s*(?=\{)"
_L4_CLASS = r"class BucketLim4 : public BucketBase\s*(?=\{)"
_LOGMAX = ("logMaxCount", U64)


def _f(lean, cxx, header, anchor, **kw):
    d = dict(lean=lean, prop="C12", cxx=cxx, header=header, anchor=anchor, ret=U64, lean_type="Nat")
    d.update(kw)
    return d


FUNCS = [
    # ------------------------------------------------------------------ BucketLimP4
    _f("limp4_hashCodeShift", "BucketLimP4 [hashCodeShift]", "details/HashBucketLimP4.h", _P4_CLASS,
       fragment=r"static const size_t hashCodeShift = (sizeof\(size_t\) \* 8 - 7);", params=[], consts=_SIZEOF),
    _f("limp4_maskEmpty", "BucketLimP4 [maskEmpty]", "details/HashBucketLimP4.h", _P4_CLASS,
       fragment=r"static const uint8_t maskEmpty = (128);", params=[], ret="u8"),
    _f("limp4_emptyHashProbe", "BucketLimP4 [emptyHashProbe]", "details/HashBucketLimP4.h", _P4_CLASS,
       fragment=r"static const uint8_t emptyHashProbe = (255);", params=[], ret="u8"),
    _f("limp4_WasFull", "BucketLimP4::WasFull", "details/HashBucketLimP4.h", r"bool WasFull\(\) const noexcept",
       cut=[(r"pvGetMemPoolIndex\(\)", "memPoolIndex")], params=[("maxCount", U64), ("memPoolIndex", U64)], ret="bool", lean_type="Bool",
       note="`memPoolIndex` = pvGetMemPoolIndex() (the pool index stored in mPtrState)"),
    # ------------------------------------------------------------------ BucketOpen2N2 / BucketOne
    _f("open2n2_hashCodeShift", "BucketOpen2N2 [hashCodeShift]", "details/HashBucketOpen2N2.h", _O2_CLASS,
       fragment=r"static const size_t hashCodeShift = (sizeof\(size_t\) \* 8 - sizeof\(ShortHash\) \* 8 \+ 1);", params=[], consts=_SIZEOF,
       note="ShortHash = uint8_t (useHashCodePartGetter = true)"),
    _f("open2n2_WasFull", "BucketOpen2N2::WasFull", "details/HashBucketOpen2N2.h", r"bool WasFull\(\) const noexcept",
       params=[], ret="bool", lean_type="Bool"),
    _f("one_hashCodeShift", "BucketOne::pvGetHashState [hashCodeShift]", "details/HashBucketOne.h", r"class BucketOne : public BucketBase\s*(?=\{)",
       fragment=r"static const size_t hashCodeShift = (\(sizeof\(size_t\) - stateSize\) \* 8);", params=[("stateSize", U64)], consts=_SIZEOF),
    # ------------------------------------------------------------------ BucketLim4 (pointer + count packed into a uint32_t)
    _f("lim4_maxCount", "BucketLim4 [maxCount]", "details/HashBucketLim4.h", _L4_CLASS,
       fragment=r"static const size_t maxCount = (size_t\{1\} << logMaxCount);", params=[_LOGMAX]),
    _f("lim4_stateNull", "BucketLim4 [stateNull]", "details/HashBucketLim4.h", _L4_CLASS,
       fragment=r"static const uint32_t stateNull = (\(uint32_t\{1\} << \(32 - logMaxCount\)\) - 1);", params=[_LOGMAX], ret="u32"),
    _f("lim4_stateNullWasFull", "BucketLim4 [stateNullWasFull]", "details/HashBucketLim4.h", _L4_CLASS,
       fragment=r"static const uint32_t stateNullWasFull = (stateNull - 1);", params=[("stateNull", "u32")], ret="u32"),
    _f("lim4_pvGetMemPoolIndex", "BucketLim4::pvGetMemPoolIndex()", "details/HashBucketLim4.h",
       r"size_t pvGetMemPoolIndex\(\) const noexcept", params=[_LOGMAX, ("mPtrState", "u32")]),
    _f("lim4_pvSet", "BucketLim4::pvSet [mPtrState = ...]", "details/HashBucketLim4.h",
       r"void pvSet\(uint32_t ptr, size_t memPoolIndex, size_t count\)",
       fragment=r"mPtrState = (static_cast<uint32_t>\(\(\(memPoolIndex - 1\) << \(32 - logMaxCount\)\)\s*\+ size_t\{ptr\} \* memPoolIndex \+ count - 1\));",
       params=[_LOGMAX, ("ptr", "u32"), ("memPoolIndex", U64), ("count", U64)], ret="u32"),
    # ------------------------------------------------------------------ Utility.h: UIntMath::DivByConst
    _f("um_DivByConst_quotient", "internal::UIntMath::DivByConst [result.quotient = value / mod]", "Utility.h",
       r"static DivResult DivByConst\(UInt value\) noexcept",
       fragment=r"result\.quotient = (value / mod);", params=[("value", U64), ("mod", U64)]),
    _f("um_DivByConst_remainder", "internal::UIntMath::DivByConst [result.remainder = value - result.quotient * mod]", "Utility.h",
       r"static DivResult DivByConst\(UInt value\) noexcept",
       fragment=r"result\.remainder = (value - result\.quotient \* mod);", cut=[(r"result\.quotient \* mod", "quotient * mod")],
       params=[("value", U64), ("mod", U64), ("quotient", U64)]),
]
