# T1b translator, area Wave2 (second wave): pure index / capacity arithmetic of functions whose models existed but were tied
# to the headers only by constants (T1) and correspondence (T2):
#   details/TreeNode.h, TreeSet.h (C02), MemPool.h MemPoolUInt32 (C09), details/HashBucketLimP4.h (C12),
#   SegmentedArray.h (C16), Array.h (C05), HashMultiMap.h / details/ArrayBucket.h (C08), DataColumn.h (C18).
# Emitted to lean/Momo/Translated/Wave2.lean; equivalences with the hand-written models in
# lean/Momo/Proof/TrEqWave2{Tree,Pool,Bucket,Seg,Arr,MMap,Col}.lean (one file per property, so that a changed function only breaks
# the property it belongs to); `Cxx_…_translated` theorems in the Props files.
#
# Conventions (as in Misc.py / Pool.py): template / class constants the code reads (`maxCapacity`, `capacityStep`,
# `blockCount`, `logInitialItemCount`, ...) become parameters of the defs; reads of other objects (`node1->GetCapacity()`,
# `params.GetInternalMemPool().GetAllocateCount()`, `mBuffers.GetCount()`) become parameters through CHECKED rewrites (`cut`:
# the translation fails when the rewritten text is no longer there exactly once); functions that are not pure integer functions
# as a whole contribute their arithmetic as `fragment`s (a regex that must match exactly once inside the named body).

IMPORTS = ["Momo.Model.PoolU32"]

# ---------------------------------------------------------------------------------------------------- C02: B-tree
_NODE_CLASS = r"class Node\s*(?=\{)"
_M, _STEP = ("maxCapacity", U64), ("capacityStep", U64)
_LEAFPOOLS = {"leafMemPoolCount": ("(tree_leafMemPoolCount maxCapacity capacityStep)", U64)}
_SPLIT = r"SplitResult pvSplitNode\(const TreeTraits& treeTraits, Node\* node, size_t newItemIndex\)"
_TS_ADD = r"ConstIterator pvAdd\(ConstIterator iter, ItemCreator&& itemCreator\)"
_TS_REB = r"bool pvRebalance\(Node\* parentNode, size_t index, Node\* savedNode\)"
_TS_FIND = r"size_t pvFindFirst\(Node\* node, const ItemPredicate& itemPred\) const"


def _tn(lean, cxx, anchor, **kw):
    d = dict(lean=lean, prop="C02", cxx=cxx, header="details/TreeNode.h", anchor=anchor, ret=U64, lean_type="Nat")
    d.update(kw)
    return d


def _ts(lean, cxx, anchor, **kw):
    d = dict(lean=lean, prop="C02", cxx=cxx, header="TreeSet.h", anchor=anchor, ret=U64, lean_type="Nat")
    d.update(kw)
    return d


_C02 = [
    _tn("tree_capacityStep", "internal::Node [capacityStep]", _NODE_CLASS,
        fragment=r"static const size_t capacityStep = (\(tCapacityStep > 0\) \? tCapacityStep : tMaxCapacity);",
        params=[("tMaxCapacity", U64), ("tCapacityStep", U64)]),
    _tn("tree_leafMemPoolCount", "internal::Node [leafMemPoolCount]", _NODE_CLASS,
        fragment=r"static const size_t leafMemPoolCount = (maxCapacity / \(2 \* capacityStep\) \+ 1);", params=[_M, _STEP]),
    _tn("tree_pvGetLeafMemPoolIndex", "internal::Node::pvGetLeafMemPoolIndex",
        r"static size_t pvGetLeafMemPoolIndex\(Params& params, size_t count\) noexcept",
        params=[_M, _STEP, ("blockCount", U64), ("internalAllocateCount", U64), ("count", U64)],
        rename={"MemPoolParams::blockCount": "blockCount"}, consts=_LEAFPOOLS,
        cut=[(r"params\.GetInternalMemPool\(\)\.GetAllocateCount\(\)", "internalAllocateCount")],
        note="`internalAllocateCount` = the number of internal nodes alive (`GetAllocateCount()` of the internal pool)"),
    _tn("tree_ctorMemPoolIndex", "internal::Node::Node [mMemPoolIndex(static_cast<uint8_t>(memPoolIndex))]", _NODE_CLASS,
        fragment=r"mMemPoolIndex\((static_cast<uint8_t>\(memPoolIndex\))\)", params=[("memPoolIndex", U64)], ret="u8"),
    _tn("tree_internalMemPoolIndex", "internal::Node::Create [Node(leafMemPoolCount, count) of an internal node]",
        r"static Node\* Create\(Params& params, bool isLeaf, size_t count\)",
        fragment=r"Node\* node = ::new\(nodeBuffer\) Node\((leafMemPoolCount), count\);", params=[_M, _STEP], consts=_LEAFPOOLS),
    _tn("tree_IsLeaf", "internal::Node::IsLeaf", r"bool IsLeaf\(\) const noexcept",
        params=[_M, _STEP, ("mMemPoolIndex", "u8")], consts=_LEAFPOOLS, ret="bool", lean_type="Bool"),
    _tn("tree_GetCapacity", "internal::Node::GetCapacity", r"size_t GetCapacity\(\) const noexcept",
        params=[_M, _STEP, ("mMemPoolIndex", "u8")],
        calls={"IsLeaf": ("tree_IsLeaf", [], "bool", ["maxCapacity", "capacityStep", "mMemPoolIndex"])}),
    # TreeSet.h: pvAdd (which of in place / grow / split), Relocator::GrowLeafNode / pvSplitNode (item counts of the new nodes)
    _ts("tree_add_fits", "TreeSet::pvAdd [if (itemCount < node->GetCapacity())]", _TS_ADD,
        fragment=r"if \((itemCount < node->GetCapacity\(\))\)", cut=[(r"node->GetCapacity\(\)", "capacity")],
        params=[("itemCount", U64), ("capacity", U64)], ret="bool", lean_type="Bool"),
    _ts("tree_add_grows", "TreeSet::pvAdd [if (itemCount < nodeMaxCapacity)]", _TS_ADD,
        fragment=r"if \((itemCount < nodeMaxCapacity)\)", params=[("itemCount", U64), ("nodeMaxCapacity", U64)], ret="bool", lean_type="Bool"),
    _ts("tree_grow_count", "Relocator::GrowLeafNode [CreateNode(true, itemCount + 1)]",
        r"Node\* GrowLeafNode\(Node\* node, size_t newItemIndex\)",
        fragment=r"Node\* newNode = CreateNode\(true, (itemCount \+ 1)\);", params=[("itemCount", U64)]),
    _ts("tree_split_left", "Relocator::pvSplitNode [if (newItemIndex <= splitItemIndex)]", _SPLIT,
        fragment=r"if \((newItemIndex <= splitItemIndex)\)", params=[("newItemIndex", U64), ("splitItemIndex", U64)],
        ret="bool", lean_type="Bool"),
    _ts("tree_split_count1L", "Relocator::pvSplitNode [new item left: CreateNode(isLeaf, splitItemIndex + 1)]", _SPLIT,
        fragment=r"Node\* newNode1 = CreateNode\(isLeaf, (splitItemIndex \+ 1)\);", params=[("splitItemIndex", U64)]),
    _ts("tree_split_count2L", "Relocator::pvSplitNode [new item left: CreateNode(isLeaf, itemCount - splitItemIndex - 1)]", _SPLIT,
        fragment=r"Node\* newNode2 = CreateNode\(isLeaf, (itemCount - splitItemIndex - 1)\);",
        params=[("itemCount", U64), ("splitItemIndex", U64)]),
    _ts("tree_split_count1R", "Relocator::pvSplitNode [new item right: CreateNode(isLeaf, splitItemIndex)]", _SPLIT,
        fragment=r"Node\* newNode1 = CreateNode\(isLeaf, (splitItemIndex)\);", params=[("splitItemIndex", U64)]),
    _ts("tree_split_count2R", "Relocator::pvSplitNode [new item right: CreateNode(isLeaf, itemCount - splitItemIndex)]", _SPLIT,
        fragment=r"Node\* newNode2 = CreateNode\(isLeaf, (itemCount - splitItemIndex)\);",
        params=[("itemCount", U64), ("splitItemIndex", U64)]),
    _ts("tree_split_newIndexR", "Relocator::pvSplitNode [new item right: its index in newNode2]", _SPLIT,
        fragment=r"return \{ newNode2, (newItemIndex - splitItemIndex - 1), splitItemIndex,",
        params=[("newItemIndex", U64), ("splitItemIndex", U64)]),
    # TreeSet.h: pvRebalance(parentNode, index, savedNode) — which pair is tried and the "can merge" test
    _ts("tree_reb_noPair", "TreeSet::pvRebalance [if (index == 0 || index > parentNode->GetCount())]", _TS_REB,
        fragment=r"if \((index == 0 \|\| index > parentNode->GetCount\(\))\)", cut=[(r"parentNode->GetCount\(\)", "parentCount")],
        params=[("index", U64), ("parentCount", U64)], ret="bool", lean_type="Bool"),
    _ts("tree_reb_leftIndex", "TreeSet::pvRebalance [--index]", _TS_REB,
        fragment=r"(--index;)", wrap="{ %s return index; }", params=[("index", U64)]),
    _ts("tree_reb_tooBig", "TreeSet::pvRebalance [if (itemCount1 + itemCount2 + 1 > node1->GetCapacity())]", _TS_REB,
        fragment=r"if \((itemCount1 \+ itemCount2 \+ 1 > node1->GetCapacity\(\))\)", cut=[(r"node1->GetCapacity\(\)", "capacity1")],
        params=[("itemCount1", U64), ("itemCount2", U64), ("capacity1", U64)], ret="bool", lean_type="Bool"),
    # TreeSet.h: the binary search of pvFindFirst(node, pred) as a whole: `pred[i]` = the answer of itemPred for item i (0 = false)
    _ts("tree_findFirst_bin", "TreeSet::pvFindFirst(Node*, pred) [binary search branch]", _TS_FIND,
        fragment=r"else\s*(\{\s*size_t leftIndex = 0;.*return leftIndex;\s*\})", wrap="%s", fuel=64,
        cut=[(r"node->GetCount\(\)", "count"), (r"itemPred\(\*node->GetItemPtr\(middleIndex\)\)", "pred[middleIndex]")],
        params=[("pred", "u8[]"), ("count", U64)],
        note="`count` = node->GetCount(); `pred i` ≠ 0 iff itemPred holds for item i of the node"),
]

# ---------------------------------------------------------------------------------------------------- C09: MemPoolUInt32
_P32_CLASS = r"class MemPoolUInt32\s*(?=\{)"
_P32_NEWBUF = r"void pvNewBuffer\(\)"
_N32, _S32 = ("blockCount", U64), ("mBlockSize", U64)
_P32_CONSTS = {"nullPtr": ("PoolU32.nullPtr", "u32"), "sizeof(uint32_t)": ("PoolU32.sizeofU32", U64),
               "UIntConst::maxSize": ("18446744073709551615", U64)}


def _p32(lean, cxx, anchor, **kw):
    d = dict(lean=lean, prop="C09", cxx=cxx, header="MemPool.h", anchor=anchor, ret=U64, lean_type="Nat", consts=_P32_CONSTS)
    d.update(kw)
    return d


_C09 = [
    _p32("pool32_maxBufferCount", "MemPoolUInt32::MemPoolUInt32 [mMaxBufferCount(maxTotalBlockCount / blockCount)]", _P32_CLASS,
         fragment=r"mMaxBufferCount\((maxTotalBlockCount / blockCount)\)", params=[_N32, ("maxTotalBlockCount", U64)]),
    _p32("pool32_blockSize", "MemPoolUInt32::MemPoolUInt32 [mBlockSize(std::minmax(blockSize, sizeof(uint32_t)).second)]", _P32_CLASS,
         fragment=r"mBlockSize\((std::minmax\(blockSize, sizeof\(uint32_t\)\)\.second)\)", params=[("blockSize", U64)]),
    _p32("pool32_blockSizeTooBig", "MemPoolUInt32::MemPoolUInt32 [if (mBlockSize > UIntConst::maxSize / blockCount)]", _P32_CLASS,
         fragment=r"if \((mBlockSize > UIntConst::maxSize / blockCount)\)", params=[_N32, _S32], ret="bool", lean_type="Bool"),
    _p32("pool32_GetRealPointer", "MemPoolUInt32::GetRealPointer", r"ResObject\* GetRealPointer\(uint32_t block\) noexcept",
         params=[_N32, _S32, ("mBuffers", "u64[]"), ("block", "u32")],
         cut=[(r"void\* realPtr =", "Byte* realPtr ="), (r"return static_cast<ResObject\*>\(realPtr\);", "return realPtr;")],
         note="`mBuffers k` = the address stored in mBuffers[k]; the result is the address"),
    _p32("pool32_pvGetBufferSize", "MemPoolUInt32::pvGetBufferSize", r"size_t pvGetBufferSize\(\) const noexcept", occurrence=1,
         params=[_N32, _S32]),
    _p32("pool32_newBuffer_limit", "MemPoolUInt32::pvNewBuffer [if (bufferCount >= mMaxBufferCount)]", _P32_NEWBUF,
         fragment=r"if \((bufferCount >= mMaxBufferCount)\)", params=[("bufferCount", U64), ("mMaxBufferCount", U64)],
         ret="bool", lean_type="Bool"),
    _p32("pool32_newBuffer_reserve", "MemPoolUInt32::pvNewBuffer [mBuffers.Reserve(bufferCount + 1)]", _P32_NEWBUF,
         fragment=r"mBuffers\.Reserve\((bufferCount \+ 1)\);", params=[("bufferCount", U64)]),
    _p32("pool32_newBuffer_nextBlock", "MemPoolUInt32::pvNewBuffer [uint32_t nextBlock = ...]", _P32_NEWBUF,
         fragment=r"uint32_t nextBlock = (\(i \+ 1 < blockCount\)\s*\? static_cast<uint32_t>\(bufferCount \* blockCount \+ i \+ 1\) : nullPtr);",
         params=[_N32, ("bufferCount", U64), ("i", U64)], ret="u32"),
    _p32("pool32_newBuffer_linkAddr", "MemPoolUInt32::pvNewBuffer [pvSetNextBlock(nextBlock, buffer + mBlockSize * i)]", _P32_NEWBUF,
         fragment=r"pvSetNextBlock\(nextBlock, (buffer \+ mBlockSize \* i)\);", params=[_S32, ("buffer", U64), ("i", U64)]),
    _p32("pool32_newBuffer_head", "MemPoolUInt32::pvNewBuffer [mBlockHead = static_cast<uint32_t>(bufferCount * blockCount)]", _P32_NEWBUF,
         fragment=r"mBlockHead = (static_cast<uint32_t>\(bufferCount \* blockCount\));", params=[_N32, ("bufferCount", U64)], ret="u32"),
    _p32("pool32_dealloc_clears", "MemPoolUInt32::Deallocate [if (mAllocCount == 0 && mBuffers.GetCount() > 2)]",
         r"void Deallocate\(uint32_t block\) noexcept",
         fragment=r"if \((mAllocCount == 0 && mBuffers\.GetCount\(\) > 2)\)", cut=[(r"mBuffers\.GetCount\(\)", "bufferCount")],
         params=[("mAllocCount", U64), ("bufferCount", U64)], ret="bool", lean_type="Bool"),
]

# ---------------------------------------------------------------------------------------------------- C16: SegmentedArray
_SA_INC = r"void pvIncCapacity\(size_t initCapacity, size_t capacity\)"
_SA_DEC = r"void pvDecCapacity\(size_t capacity\) noexcept"
_SA_ADD = r"void AddBackCrt\(ItemCreator&& itemCreator\)"
_SA_SHRINK = r"void Shrink\(size_t capacity\) noexcept"
_SEGUP = r"(if \(itemIndex > 0\)\s*\+\+segIndex;)"


def _sa(lean, cxx, anchor, **kw):
    d = dict(lean=lean, prop="C16", cxx=cxx, header="SegmentedArray.h", anchor=anchor, ret=U64, lean_type="Nat")
    d.update(kw)
    return d


_C16 = [
    _sa("seg_incCap_segCount", "SegmentedArray::pvIncCapacity [if (itemIndex > 0) ++segIndex]", _SA_INC,
        fragment=_SEGUP, wrap="{ %s return segIndex; }", params=[("segIndex", U64), ("itemIndex", U64)]),
    _sa("seg_decCap_segCount", "SegmentedArray::pvDecCapacity [if (itemIndex > 0) ++segIndex]", _SA_DEC,
        fragment=_SEGUP, wrap="{ %s return segIndex; }", params=[("segIndex", U64), ("itemIndex", U64)]),
    _sa("seg_incCap_more", "SegmentedArray::pvIncCapacity [for (...; segCount < segIndex; ++segCount)]", _SA_INC,
        fragment=r"for \(size_t segCount = mSegments\.GetCount\(\); (segCount < segIndex); \+\+segCount\)",
        params=[("segCount", U64), ("segIndex", U64)], ret="bool", lean_type="Bool"),
    _sa("seg_incCap_reserve", "SegmentedArray::pvIncCapacity [mSegments.Reserve(segCount + 1)]", _SA_INC,
        fragment=r"mSegments\.Reserve\((segCount \+ 1)\);", params=[("segCount", U64)]),
    _sa("seg_decCap_removed", "SegmentedArray::pvDecCapacity [mSegments.RemoveBack(segCount - segIndex)]", _SA_DEC,
        fragment=r"mSegments\.RemoveBack\((segCount - segIndex)\);", params=[("segCount", U64), ("segIndex", U64)]),
    _sa("seg_Reserve_grows", "SegmentedArray::Reserve [if (capacity > initCapacity)]", r"void Reserve\(size_t capacity\)",
        fragment=r"if \((capacity > initCapacity)\)", params=[("capacity", U64), ("initCapacity", U64)], ret="bool", lean_type="Bool"),
    _sa("seg_Shrink_keeps", "SegmentedArray::Shrink(capacity) [if (GetCapacity() <= capacity) return]", _SA_SHRINK,
        fragment=r"if \((GetCapacity\(\) <= capacity)\)\s*return;", cut=[(r"GetCapacity\(\)", "curCapacity")],
        params=[("curCapacity", U64), ("capacity", U64)], ret="bool", lean_type="Bool"),
    _sa("seg_Shrink_target", "SegmentedArray::Shrink(capacity) [if (capacity < mCount) capacity = mCount]", _SA_SHRINK,
        fragment=r"(if \(capacity < mCount\)\s*capacity = mCount;)", wrap="{ %s return capacity; }",
        params=[("mCount", U64), ("capacity", U64)]),
    _sa("seg_AddBack_hasRoom", "SegmentedArray::AddBackCrt [if (segIndex < segCount)]", _SA_ADD,
        fragment=r"if \((segIndex < segCount)\)", params=[("segIndex", U64), ("segCount", U64)], ret="bool", lean_type="Bool"),
    _sa("seg_incCount_grows", "SegmentedArray::pvIncCount [if (count > initCapacity)]",
        r"void pvIncCount\(size_t count, const ItemMultiCreator& itemMultiCreator\)",
        fragment=r"if \((count > initCapacity)\)", params=[("count", U64), ("initCapacity", U64)], ret="bool", lean_type="Bool"),
]

# ---------------------------------------------------------------------------------------------------- C05: Array
_AR_REALLOC = r"bool Reallocate\(size_t capacityLin, size_t capacityExp\)"
_AR_SHRINK = r"void Shrink\(size_t capacity\)"
_IC = ("internalCapacity", U64)


def _ar(lean, cxx, anchor, **kw):
    d = dict(lean=lean, prop="C05", cxx=cxx, header="Array.h", anchor=anchor, ret="bool", lean_type="Bool")
    d.update(kw)
    return d


_C05 = [
    _ar("arr_Data_GetCapacity", "Array::Data::GetCapacity", r"size_t GetCapacity\(\) const noexcept", occurrence=0,
        cut=[(r"pvIsInternal\(\)", "isInternal")], params=[_IC, ("isInternal", "bool"), ("mCapacity", U64)], ret=U64, lean_type="Nat"),
    _ar("arr_Reallocate_internal", "Array::Data::Reallocate [if (GetCapacity() == internalCapacity) return false]", _AR_REALLOC,
        fragment=r"if \((GetCapacity\(\) == internalCapacity)\)\s*return false;", cut=[(r"GetCapacity\(\)", "curCapacity")],
        params=[_IC, ("curCapacity", U64)]),
    _ar("arr_Reallocate_small", "Array::Data::Reallocate [if (capacityLin <= internalCapacity || capacityExp <= internalCapacity)]", _AR_REALLOC,
        fragment=r"if \((capacityLin <= internalCapacity \|\| capacityExp <= internalCapacity)\)\s*return false;",
        params=[_IC, ("capacityLin", U64), ("capacityExp", U64)]),
    _ar("arr_Reallocate_tryInplace", "Array::Data::Reallocate [if (!canReallocate || capacityLin < capacityExp)]", _AR_REALLOC,
        fragment=r"if \((!canReallocate \|\| capacityLin < capacityExp)\)", params=[("canReallocate", "bool"), ("capacityLin", U64), ("capacityExp", U64)]),
    _ar("arr_Reserve_grows", "Array::Reserve [if (capacity > GetCapacity())]", r"void Reserve\(size_t capacity\)",
        fragment=r"if \((capacity > GetCapacity\(\))\)", cut=[(r"GetCapacity\(\)", "curCapacity")],
        params=[("capacity", U64), ("curCapacity", U64)]),
    _ar("arr_Shrink_keeps", "Array::Shrink(capacity) [if (initCapacity <= capacity || initCapacity == internalCapacity) return]", _AR_SHRINK,
        fragment=r"if \((initCapacity <= capacity \|\| initCapacity == internalCapacity)\)\s*return;",
        params=[_IC, ("initCapacity", U64), ("capacity", U64)]),
    _ar("arr_Shrink_target", "Array::Shrink(capacity) [if (capacity < count) capacity = count]", _AR_SHRINK,
        fragment=r"(if \(capacity < count\)\s*capacity = count;)", wrap="{ %s return capacity; }",
        params=[("count", U64), ("capacity", U64)], ret=U64, lean_type="Nat"),
    _ar("arr_Reset_heap", "Array::Data::Reset [if (capacity > internalCapacity)]",
        r"void Reset\(size_t capacity, size_t count, ItemsCreator&& itemsCreator\)",
        fragment=r"pvCheckCapacity\(capacity\);\s*if \((capacity > internalCapacity)\)", params=[_IC, ("capacity", U64)]),
]

# ---------------------------------------------------------------------------------------------------- C08: ArrayBucket tests
_AB_ADD = r"void AddBackCrt\(Params& params, ItemCreator&& itemCreator\)"
_AB_REMOVE = r"void RemoveBack\(Params& params\) noexcept"


def _abt(lean, cxx, anchor, **kw):
    d = dict(lean=lean, prop="C08", cxx=cxx, header="details/ArrayBucket.h", anchor=anchor, ret="bool", lean_type="Bool")
    d.update(kw)
    return d


_C08 = [
    _abt("ab_AddBack_firstCount", "ArrayBucket::AddBackCrt [mPtr == nullptr: size_t newCount = 1]", _AB_ADD,
         fragment=r"size_t newCount = (1);", params=[], ret=U64, lean_type="Nat"),
    _abt("ab_AddBack_isFast", "ArrayBucket::AddBackCrt [if (memPoolIndex > 0)]", _AB_ADD,
         fragment=r"if \((memPoolIndex > 0)\)", params=[("memPoolIndex", U64)]),
    _abt("ab_AddBack_isFull", "ArrayBucket::AddBackCrt [if (count == memPoolIndex)]", _AB_ADD,
         fragment=r"if \((count == memPoolIndex)\)", params=[("count", U64), ("memPoolIndex", U64)]),
    _abt("ab_AddBack_newCount", "ArrayBucket::AddBackCrt [size_t newCount = count + 1]", _AB_ADD,
         fragment=r"size_t newCount = (count \+ 1);", params=[("count", U64)], ret=U64, lean_type="Nat"),
    _abt("ab_AddBack_staysFast", "ArrayBucket::AddBackCrt [if (newCount <= maxFastCount)]", _AB_ADD,
         fragment=r"if \((newCount <= maxFastCount)\)", params=[("maxFastCount", U64), ("newCount", U64)]),
    _abt("ab_AddBack_heapState", "ArrayBucket::AddBackCrt [pvSet(memory.Extract(), uint8_t{0})]", _AB_ADD,
         fragment=r"pvSet\(memory\.Extract\(\), (uint8_t\{0\})\);", params=[], ret="u8", lean_type="Nat"),
    _abt("ab_RemoveBack_last", "ArrayBucket::RemoveBack [if (count == 1)]", _AB_REMOVE,
         fragment=r"if \((count == 1)\)", params=[("count", U64)]),
    _abt("ab_RemoveBack_isFast", "ArrayBucket::RemoveBack [if (pvGetMemPoolIndex() > 0)]", _AB_REMOVE,
         fragment=r"if \((pvGetMemPoolIndex\(\) > 0)\)", cut=[(r"pvGetMemPoolIndex\(\)", "memPoolIndex")], params=[("memPoolIndex", U64)]),
]

# ---------------------------------------------------------------------------------------------------- C18: DataColumnList::pvGetOffset
_C18 = [
    dict(lean="col_pvGetOffset", prop="C18", cxx="DataColumnList::pvGetOffset", header="DataColumn.h",
         anchor=r"MOMO_FORCEINLINE size_t pvGetOffset\(ColumnCode columnCode\) const noexcept",
         params=[("mAddends", "u64[]"), ("vertex1", U64), ("vertex2", U64)], ret=U64, lean_type="Nat",
         cut=[(r"std::pair<size_t, size_t> vertices = ColumnTraits::GetVertices\(columnCode, mCodeParam\);", ""),
              (r"vertices\.first", "vertex1"), (r"vertices\.second", "vertex2")],
         note="`(vertex1, vertex2)` = ColumnTraits::GetVertices(columnCode, mCodeParam) (translated in area Misc); `mAddends i` = mAddends[i]"),
]

FUNCS = _C02 + _C09 + _C16 + _C05 + _C08 + _C18
