# T1b translator, area Wave2Meta (second wave, property C12): the metadata writes of `BucketLimP4::AddCrt` (details/HashBucketLimP4.h),
# left out of area HashMeta because of its `switch`: one `fragment` per case, composed from the already translated
# `pvSetHashProbe` / `pvCalcShortHash` of area HashMeta (this generated file therefore imports lean/Momo/Translated/HashMeta.lean;
# it is a separate area so that the other properties of the second wave do not depend on the C12 files).
# Emitted to lean/Momo/Translated/Wave2Meta.lean; equivalence with `HashMeta.P4.Bucket.addCrt` in lean/Momo/Proof/TrEqWave2Bucket.lean;
# `C12_limp4_addCrt_translated` in Props/C12.lean.
#
# Conventions as in HashMeta.py: `mShortHashes` is a field of type "u8[]"; `useHashCodePartGetter`, `hashCount` are parameters;
# construction / relocation of items, the memory pools and the pointer state are erased by CHECKED `cut`s (each must match exactly
# once); the pool index `pvSetPtrState` stores becomes the output `mpi`.

IMPORTS = ["Momo.Model.HashMeta", "Momo.Translated.HashMeta"]

U8A = "u8[]"
_H = "details/HashBucketLimP4.h"
_ADDCRT = r"Iterator AddCrt\(Params& params, ItemCreator&& itemCreator, size_t hashCode,\s*size_t logBucketCount, size_t probe\)"
_PAR = [("useHashCodePartGetter", "bool"), ("hashCount", U64)]
_SETPROBE = {"pvSetHashProbe": ("(fun sh => limp4_pvSetHashProbe sh useHashCodePartGetter hashCount)", ["mShortHashes"], [U64, U64, U64, U64])}
_SHORT = {"pvCalcShortHash": ("limp4_pvCalcShortHash", [U64], "u8", [])}
_HLP = [("hashCode", U64), ("logBucketCount", U64), ("probe", U64)]


def _m(lean, cxx, anchor, **kw):
    d = dict(lean=lean, prop="C12", cxx=cxx, header=_H, anchor=anchor, fields=[("mShortHashes", U8A)], writes=["mShortHashes"],
             ret=None, lean_type="Nat → Nat")
    d.update(kw)
    return d


def _case(k):
    return _m("limp4_AddCrt_case%d" % k, "BucketLimP4::AddCrt [count == memPoolIndex == %d: pvSetHashProbe(%d, ...) before pvAdd<%d>]" % (k, k, k), _ADDCRT,
              fragment=(r"case %d:" % k if k < 3 else r"default:\s*MOMO_ASSERT\(memPoolIndex == 3\);")
              + r"\s*(pvSetHashProbe\(%d, hashCode, logBucketCount, probe\);)\s*return pvAdd<%d>\(" % (k, k),
              wrap="{ %s }", params=_PAR + _HLP, tailcalls=_SETPROBE)


FUNCS = [
    _m("limp4_AddCrt_null", "BucketLimP4::AddCrt [items == nullptr: pvSetHashProbe(0, ...)]", _ADDCRT,
       fragment=r"(pvSetHashProbe\(0, hashCode, logBucketCount, probe\);)", wrap="{ %s }", params=_PAR + _HLP, tailcalls=_SETPROBE),
    _m("limp4_pvAdd0_meta", "BucketLimP4::pvAdd0 [mShortHashes[0] = pvCalcShortHash(hashCode)]",
       r"Item\* pvAdd0\(Params& params, ItemCreator&& itemCreator, size_t hashCode\)",
       fragment=r"(mShortHashes\[0\] = pvCalcShortHash\(hashCode\);)", wrap="{ %s }", params=[("hashCode", U64)], calls=_SHORT),
    dict(lean="limp4_AddCrt_grows", prop="C12", cxx="BucketLimP4::AddCrt [if (count == memPoolIndex)]", header=_H, anchor=_ADDCRT,
         fragment=r"if \((count == memPoolIndex)\)", params=[("count", U64), ("memPoolIndex", U64)], ret="bool", lean_type="Bool"),
    _case(1), _case(2), _case(3),
    # pvAdd<memPoolIndex>: count = memPoolIndex, short hash at `count`, the pointer state gets memPoolIndex + 1
    _m("limp4_pvAdd_meta", "BucketLimP4::pvAdd<memPoolIndex> (metadata)",
       r"Item\* pvAdd\(Params& params, ItemCreator&& itemCreator, size_t hashCode, Item\* items\)",
       params=[("memPoolIndex", U64), ("hashCode", U64)], outs=[("mpi", U64)], lean_type="Nat × (Nat → Nat)", calls=_SHORT,
       cut=[(r"Memory<newMemPoolIndex> memory\(params\.template GetMemPool<newMemPoolIndex>\(\)\);", ""),
            (r"Item\* newItems = memory\.GetPointer\(\);", ""),
            (r"ItemTraits::RelocateCreate\(params\.GetMemManager\(\), items, newItems, count,\s*std::forward<ItemCreator>\(itemCreator\), newItems \+ count\);", ""),
            (r"params\.template GetMemPool<memPoolIndex>\(\)\.Deallocate\(items\);", ""),
            (r"pvSetPtrState\(memory\.Extract\(\), newMemPoolIndex\);", "mpi = newMemPoolIndex;"),
            (r"return newItems \+ count;", "return;")],
       note="`mpi` = the pool index handed to pvSetPtrState; result (mpi, mShortHashes)"),
    # the last `else` block: room in the current array
    _m("limp4_AddCrt_inPlace", "BucketLimP4::AddCrt [count < memPoolIndex: else block]", _ADDCRT,
       fragment=r"else\s*(\{\s*pvSetHashProbe\(count, hashCode, logBucketCount, probe\);.*?return items \+ count;\s*\})", wrap="%s",
       params=_PAR + [("count", U64)] + _HLP, tailcalls=_SETPROBE, calls=_SHORT,
       cut=[(r"std::forward<ItemCreator>\(itemCreator\)\(items \+ count\);", ""), (r"pvSetPtrState\(items, memPoolIndex\);", ""),
            (r"return items \+ count;", "return;")]),
]
