# Area HashProbe (C01 / C11, used by C12 and C13): bucket-index and capacity arithmetic of the hash table
#   BucketBase / HashBucketBase (details/BucketUtility.h), the GetNextBucketIndex overrides of BucketLimP4 / BucketOpen2N2 /
#   BucketOpen8, the constant GetBucketCountShift of the open-addressing policies, HashSet::pvGetNewLogBucketCount (HashSet.h)
# -> lean/Momo/Translated/HashProbe.lean; equivalences with Momo.Probe / Momo.HT: lean/Momo/Proof/TrEqHashProbe.lean.
# (kept apart from area HashMeta so that a change of a hash-metadata function does not break the build of C01 / C11)
#
# Unnamed parameters (`size_t /*hashCode*/`) are not parameters of the defs.
# Floating point is outside the translator: in HashBucketBase::CalcCapacity the one `double` expression (bucketMaxItemCount == 1)
# is replaced by a call of the uninterpreted function parameter `capFloat58`; the CalcCapacity of HashBucketOpen2N2 / OpenN1 /
# Open8 consist of nothing but such an expression and are not translated.

_NEXT = r"static size_t GetNextBucketIndex\(size_t bucketIndex, size_t\s*,\s*size_t bucketCount, size_t %s\) noexcept"
_SHIFT1 = r"static size_t GetBucketCountShift\(size_t\s*,\s*size_t\s*\) noexcept"
_P2 = [("bucketCount", U64), ("bucketMaxItemCount", U64)]      # the two unnamed (unused) parameters keep their positions
_NEWLOG_CUT = [(r"const HashTraits& hashTraits = GetHashTraits\(\);", ""),
               (r"mBuckets == nullptr", "bucketsIsNull"),
               (r"hashTraits\.GetLogStartBucketCount\(\)", "logStartBucketCount"),
               (r"mBuckets->GetLogCount\(\)", "curLogBucketCount"),
               (r"hashTraits\.GetBucketCountShift\(", "GetBucketCountShift("),
               (r"MOMO_CHECK\(", "MOMO_ASSERT(")]
_NEWLOG = dict(prop="C01", header="HashSet.h", anchor=r"size_t pvGetNewLogBucketCount\(\) const",
               params=[("bucketsIsNull", "bool"), ("logStartBucketCount", U64), ("curLogBucketCount", U64), ("bucketMaxItemCount", U64)],
               ret=U64, lean_type="Nat", cut=_NEWLOG_CUT,
               note="`mBuckets == nullptr`, `GetLogStartBucketCount()`, `mBuckets->GetLogCount()` are the parameters bucketsIsNull, "
                    "logStartBucketCount, curLogBucketCount; MOMO_CHECK(shift > 0) is listed as an assertion")

FUNCS = [
    dict(lean="base_GetStartBucketIndex", prop="C01", cxx="BucketBase::GetStartBucketIndex", header="details/BucketUtility.h",
         anchor=r"static size_t GetStartBucketIndex\(size_t hashCode, size_t bucketCount\) noexcept",
         params=[("hashCode", U64), ("bucketCount", U64)], ret=U64, lean_type="Nat"),
    dict(lean="base_GetNextBucketIndex", prop="C01", cxx="BucketBase::GetNextBucketIndex", header="details/BucketUtility.h",
         anchor=_NEXT % r"\s*", params=[("bucketIndex", U64), ("bucketCount", U64)], ret=U64, lean_type="Nat"),
    dict(lean="limp4_GetNextBucketIndex", prop="C01", cxx="BucketLimP4::GetNextBucketIndex", header="details/HashBucketLimP4.h",
         anchor=_NEXT % r"\s*", params=[("bucketIndex", U64), ("bucketCount", U64)], ret=U64, lean_type="Nat"),
    dict(lean="open2n2_GetNextBucketIndex", prop="C01", cxx="BucketOpen2N2::GetNextBucketIndex", header="details/HashBucketOpen2N2.h",
         anchor=_NEXT % "probe", params=[("bucketIndex", U64), ("bucketCount", U64), ("probe", U64)], ret=U64, lean_type="Nat"),
    dict(lean="open8_GetNextBucketIndex", prop="C01", cxx="BucketOpen8::GetNextBucketIndex", header="details/HashBucketOpen8.h",
         anchor=_NEXT % "probe", params=[("bucketIndex", U64), ("bucketCount", U64), ("probe", U64)], ret=U64, lean_type="Nat"),
    dict(lean="base_GetMaxProbe", prop="C01", cxx="BucketBase::GetMaxProbe", header="details/BucketUtility.h",
         anchor=r"size_t GetMaxProbe\(size_t logBucketCount\) const noexcept", params=[("logBucketCount", U64)], ret=U64, lean_type="Nat"),
    dict(lean="base_GetBucketCountShift", prop="C01", cxx="HashBucketBase::GetBucketCountShift", header="details/BucketUtility.h",
         anchor=r"static size_t GetBucketCountShift\(size_t bucketCount,\s*size_t bucketMaxItemCount\) noexcept",
         params=[("bucketCount", U64), ("bucketMaxItemCount", U64)], ret=U64, lean_type="Nat"),
    dict(lean="base_CalcCapacity", prop="C01", cxx="HashBucketBase::CalcCapacity", header="details/BucketUtility.h",
         anchor=r"static size_t CalcCapacity\(size_t bucketCount, size_t bucketMaxItemCount\) noexcept",
         params=[("capFloat58", "u64[]"), ("bucketCount", U64), ("bucketMaxItemCount", U64)], ret=U64, lean_type="Nat",
         cut=[(r"static_cast<size_t>\(static_cast<double>\(bucketCount\) / 8\.0 \* 5\.0\)", "capFloat58(bucketCount)")],
         calls={"capFloat58": ("capFloat58", [U64], U64, [])},
         note="the floating-point expression `static_cast<size_t>(static_cast<double>(bucketCount) / 8.0 * 5.0)` is the uninterpreted "
              "parameter `capFloat58 bucketCount`"),
    dict(lean="open2n2_GetBucketCountShift", prop="C01", cxx="HashBucketOpen2N2::GetBucketCountShift", header="details/HashBucketOpen2N2.h",
         anchor=_SHIFT1, params=_P2, ret=U64, lean_type="Nat"),
    dict(lean="openN1_GetBucketCountShift", prop="C01", cxx="HashBucketOpenN1::GetBucketCountShift", header="details/HashBucketOpenN1.h",
         anchor=_SHIFT1, params=_P2, ret=U64, lean_type="Nat"),
    dict(lean="open8_GetBucketCountShift", prop="C01", cxx="HashBucketOpen8::GetBucketCountShift", header="details/HashBucketOpen8.h",
         anchor=_SHIFT1, params=_P2, ret=U64, lean_type="Nat"),
    # HashSet::pvGetNewLogBucketCount for a bucket policy that inherits GetBucketCountShift from HashBucketBase …
    dict(_NEWLOG, lean="hs_pvGetNewLogBucketCount_base", cxx="HashSet::pvGetNewLogBucketCount (HashBucketBase::GetBucketCountShift)",
         calls={"GetBucketCountShift": ("base_GetBucketCountShift", [U64, U64], U64, [])}),
    # … and for the open-addressing policies (Open2N2 / OpenN1 / Open8: the three functions above have the same text)
    dict(_NEWLOG, lean="hs_pvGetNewLogBucketCount_open", cxx="HashSet::pvGetNewLogBucketCount (HashBucketOpen*::GetBucketCountShift)",
         calls={"GetBucketCountShift": ("open2n2_GetBucketCountShift", [U64, U64], U64, [])}),
]
