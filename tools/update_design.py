#!/usr/bin/env python3
"""Refreshes the generated tables of DESIGN.md section 9 (between <!-- GEN:x --> … <!-- /GEN:x --> markers):
   matrix = tools/seed_matrix.py output, counts = per-property registry counts."""
import os, re, subprocess, sys
HERE = os.path.dirname(os.path.abspath(__file__))
VERIF = os.path.dirname(HERE)
sys.path.insert(0, HERE)
import registry


def counts():
    rows = ["| property | registered theorems | harness sources | harness builds per check |", "|---|---|---|---|"]
    for pid, p in sorted(registry.PROPS.items()):
        rows.append("| %s | %d | %s | %d |" % (pid, len(p["theorems"]), ", ".join(sorted(set(h["src"] for h in p["harnesses"]))), len(p["harnesses"])))
    return "\n".join(rows)


def matrix():
    return subprocess.run([sys.executable, os.path.join(HERE, "seed_matrix.py")], capture_output=True, text=True).stdout.strip()


def translated():
    import translate
    rows = ["| area (generated file) | property | C++ function | Lean def |", "|---|---|---|---|"]
    for spec in translate.FUNCS:
        rows.append("| base (Translated.lean) | %s | `%s` (%s) | `Momo.Tr.%s` |" % (spec.get("prop", ""), spec["cxx"], spec["header"], spec["lean"]))
    for area, (funcs, _) in sorted(translate.load_area_specs().items()):
        for spec in funcs:
            rows.append("| %s (Translated/%s.lean) | %s | `%s` (%s) | `Momo.Tr.%s` |" % (area, area, spec.get("prop", ""), spec["cxx"], spec["header"], spec["lean"]))
    return "\n".join(rows)


def main():
    p = os.path.join(VERIF, "DESIGN.md")
    s = open(p).read()
    for name, fn in (("counts", counts), ("matrix", matrix), ("translated", translated)):
        pat = re.compile(r"(<!-- GEN:%s -->\n).*?(\n<!-- /GEN:%s -->)" % (name, name), re.S)
        if pat.search(s):
            s = pat.sub(lambda m: m.group(1) + fn() + m.group(2), s)
    open(p, "w").write(s)


if __name__ == "__main__":
    main()
