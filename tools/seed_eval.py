#!/usr/bin/env python3
"""Runs registered checks against a seeded change kept under /verif/seeded/<id>/ and records the outcome.

  seed_eval.py <seed-id> <property> [<property> …] [--tier=quick] [--seed=N] [--in-place]

Default: the change is applied to a scratch worktree of /repo under /tmp/seedeval/ and the checks run against it
(VERIF_REPO=<worktree>, which makes verif.py work on a private copy of the Lean project and build directory), so that
checks of /repo running at the same time are not disturbed; worktree and private copy are removed afterwards.
--in-place: apply seeded/<id>/patch.diff to /repo itself (git apply), run the registered commands exactly as they are
used, undo the change (git checkout -- .); /repo must be clean and nothing else may be using it.
Either way seeded/<id>/meta.json is updated (which checks caught it, with which lines). Nothing is committed to /repo.
"""
import sys, os, json, subprocess, time, shutil

VERIF = os.path.dirname(os.path.dirname(os.path.abspath(__file__)))


def main():
    args = [a for a in sys.argv[1:] if not a.startswith("--")]
    tier, seed, in_place = "quick", None, False
    for a in sys.argv[1:]:
        if a.startswith("--tier"):
            tier = a.split("=", 1)[1] if "=" in a else "quick"
        if a.startswith("--seed="):
            seed = a.split("=", 1)[1]
        if a == "--in-place":
            in_place = True
    sid, props = args[0], args[1:]
    d = os.path.join(VERIF, "seeded", sid)
    patch = os.path.join(d, "patch.diff")
    meta_path = os.path.join(d, "meta.json")
    meta = json.load(open(meta_path)) if os.path.exists(meta_path) else {}
    env = dict(os.environ)
    wt = iso = None
    if in_place:
        st = subprocess.run(["git", "-C", "/repo", "status", "--porcelain", "--untracked-files=no"], capture_output=True, text=True).stdout.strip()
        if st:
            print("refusing: /repo has local modifications:\n" + st)
            return 2
        r = subprocess.run(["git", "-C", "/repo", "apply", patch], capture_output=True, text=True)
    else:
        os.makedirs("/tmp/seedeval", exist_ok=True)
        wt, iso = "/tmp/seedeval/wt-" + sid, "/tmp/seedeval/iso-" + sid
        subprocess.run(["git", "-C", "/repo", "worktree", "remove", "--force", wt], capture_output=True)
        r = subprocess.run(["git", "-C", "/repo", "worktree", "add", "--detach", wt, "HEAD"], capture_output=True, text=True)
        if r.returncode == 0:
            r = subprocess.run(["git", "-C", wt, "apply", patch], capture_output=True, text=True)
        env["VERIF_REPO"], env["VERIF_ISO_DIR"] = wt, iso
    if r.returncode != 0:
        print("patch does not apply:", r.stderr)
        if wt:
            subprocess.run(["git", "-C", "/repo", "worktree", "remove", "--force", wt], capture_output=True)
        return 2
    results = meta.get("check_results", {})
    try:
        for p in props:
            t0 = time.time()
            cmd = [sys.executable, os.path.join(VERIF, "tools", "verif.py"), "check", p, "--tier", tier] + (["--seed", seed] if seed else [])
            c = subprocess.run(cmd, capture_output=True, text=True, cwd=VERIF, env=env)
            lines = [l for l in c.stdout.split("\n") if l.startswith("VIOLATION") or l.startswith("OK ") or l.startswith("KNOWN-FINDING")]
            res = {"exit": c.returncode, "tier": tier, "lines": lines, "wall_s": round(time.time() - t0, 1),
                   "caught": c.returncode == 1 and any(l.startswith("VIOLATION") for l in lines),
                   "with_failing_input": any(l.startswith("VIOLATION") and "no-failing-input-found" not in l for l in lines)}
            if seed:
                res["seed"] = seed
            # keep a short excerpt of the replay file (the failing input) next to the result
            for l in lines:
                if l.startswith("VIOLATION") and "replay=" in l:
                    rp = l.split("replay=", 1)[1].split()[0]
                    try:
                        j = json.load(open(rp))
                        fi = j.get("failing_inputs") or []
                        res["replay_excerpt"] = json.dumps(fi[:2])[:700] if fi else json.dumps({k: j.get(k) for k in ("proof_obligation_broken", "correspondence_diffs") if j.get(k)})[:700]
                    except Exception as e:
                        res["replay_excerpt"] = "unreadable: %r" % (e,)
            results[p if not seed else "%s@seed%s" % (p, seed)] = res
            print(p, res)
    finally:
        if in_place:
            subprocess.run(["git", "-C", "/repo", "checkout", "--", "."])
            subprocess.run([sys.executable, "-c",
                            "import sys, os; sys.path.insert(0, '%s/tools'); import extract, translate; L='%s/lean/Momo/'; "
                            "open(L+'Extracted.lean','w').write(extract.generate('/repo')[0]); "
                            "[(os.makedirs(os.path.dirname(L+r), exist_ok=True), open(L+r,'w').write(t)) for r, t in translate.generate_all('/repo')[0].items()]" % (VERIF, VERIF)])
        else:
            subprocess.run(["git", "-C", "/repo", "worktree", "remove", "--force", wt], capture_output=True)
            shutil.rmtree(iso, ignore_errors=True)
    meta["check_results"] = results
    json.dump(meta, open(meta_path, "w"), indent=1)
    return 0


if __name__ == "__main__":
    sys.exit(main())
