#!/usr/bin/env python3
"""Runs registered checks against a seeded change kept under /verif/seeded/<id>/ and records the outcome.

  seed_eval.py <seed-id> <property> [<property> …] [--tier quick]

Applies seeded/<id>/patch.diff to /repo (git apply), runs `verif.py check P` for each property, undoes the
change (git checkout -- .), and updates seeded/<id>/meta.json (which checks caught it, with which replay line).
/repo must be clean before; nothing is ever committed there.
"""
import sys, os, json, subprocess, time

VERIF = os.path.dirname(os.path.dirname(os.path.abspath(__file__)))


def main():
    args = [a for a in sys.argv[1:] if not a.startswith("--")]
    tier = "quick"
    for a in sys.argv[1:]:
        if a.startswith("--tier"):
            tier = a.split("=", 1)[1] if "=" in a else "quick"
    sid, props = args[0], args[1:]
    d = os.path.join(VERIF, "seeded", sid)
    patch = os.path.join(d, "patch.diff")
    st = subprocess.run(["git", "-C", "/repo", "status", "--porcelain", "--untracked-files=no"], capture_output=True, text=True).stdout.strip()
    if st:
        print("refusing: /repo has local modifications:\n" + st)
        return 2
    meta_path = os.path.join(d, "meta.json")
    meta = json.load(open(meta_path)) if os.path.exists(meta_path) else {}
    r = subprocess.run(["git", "-C", "/repo", "apply", patch], capture_output=True, text=True)
    if r.returncode != 0:
        print("patch does not apply:", r.stderr)
        return 2
    results = meta.get("check_results", {})
    try:
        for p in props:
            t0 = time.time()
            c = subprocess.run([sys.executable, os.path.join(VERIF, "tools", "verif.py"), "check", p, "--tier", tier], capture_output=True, text=True, cwd=VERIF)
            lines = [l for l in c.stdout.split("\n") if l.startswith("VIOLATION") or l.startswith("OK ") or l.startswith("KNOWN-FINDING")]
            results[p] = {"exit": c.returncode, "tier": tier, "lines": lines, "wall_s": round(time.time() - t0, 1),
                          "caught": c.returncode == 1 and any(l.startswith("VIOLATION") for l in lines),
                          "with_failing_input": any(l.startswith("VIOLATION") and "no-failing-input-found" not in l for l in lines)}
            print(p, results[p])
    finally:
        subprocess.run(["git", "-C", "/repo", "checkout", "--", "."])
        # put the shared Extracted.lean back to the unchanged tree's values
        subprocess.run([sys.executable, "-c",
                        "import sys, os; sys.path.insert(0, '%s/tools'); import extract, translate; L='%s/lean/Momo/'; "
                        "open(L+'Extracted.lean','w').write(extract.generate('/repo')[0]); "
                        "[(os.makedirs(os.path.dirname(L+r), exist_ok=True), open(L+r,'w').write(t)) for r, t in translate.generate_all('/repo')[0].items()]" % (VERIF, VERIF)])
    meta["check_results"] = results
    json.dump(meta, open(meta_path, "w"), indent=1)
    return 0


if __name__ == "__main__":
    sys.exit(main())
