#!/usr/bin/env python3
"""Line coverage of /repo/include/momo by the registered correspondence harnesses.

Which lines of the library do the harnesses of tools/props/Cxx.py never execute?  A breaking change in
such a line cannot be noticed by the correspondence check (T2).

For every registered harness build (the same (src, flags) pair registered under two properties is built
once) this tool
  1. compiles it like tools/verif.py:compile_harness does, but with `-O0 --coverage` and without
     sanitizers, into /tmp/verif-cov/<name>/ (the .gcno/.gcda files land there),
  2. preprocesses it with the same flags (`g++ -E`) to learn which header lines survive the
     preprocessor in that build,
  3. runs it once (`<exe> <seed> quick <outdir>`, cwd = the build directory),
  4. runs `gcov-12 --json-format --stdout -b` and reduces the result to the headers below
     /repo/include/momo.
The union over all builds is then classified per source line:
  executed           some instantiation in some build executed the line
  uncovered          gcov reports the line as executable in some instantiation, nothing executed it
  never instantiated the line is a statement inside a function body (heuristic scanner below) that is
                     alive after preprocessing in some build, but appears in no build's gcov data
                     (the function - or the `if constexpr`-like branch - was never instantiated)
  pp-inactive        statement inside a function body that the preprocessor removes in every build
                     (other compiler / other C++ standard / disabled option); listed separately
Output: coverage_report.md and coverage_summary.json in /verif/coverage (override with --outdir).
Nothing is ever written below /repo.

A tiny object file is linked into every build (it is created in /tmp/verif-cov, the harness sources are
untouched): it dumps the gcov counters on `_exit` (forked children of some harnesses leave with _exit),
on SIGABRT and on SIGTERM (sent on timeout), which would otherwise lose the counters.
"""
import argparse
import bisect
import concurrent.futures
import json
import os
import re
import shutil
import signal
import subprocess
import sys
import time

HERE = os.path.dirname(os.path.abspath(__file__))
VERIF = os.path.dirname(HERE)
REPO = os.environ.get("VERIF_REPO", "/repo")
INCLUDE = os.path.join(REPO, "include")
MOMO = os.path.join(INCLUDE, "momo")
HARNESS = os.path.join(VERIF, "harness")
ROOT = "/tmp/verif-cov"
GCOV = shutil.which("gcov-12") or "gcov"

HOOK_SRC = r"""
#include <signal.h>
#include <unistd.h>
extern "C" void __gcov_dump(void);
extern "C" void __real__exit(int);
extern "C" void __wrap__exit(int rc) { __gcov_dump(); __real__exit(rc); }
static void vf_cov_sig(int s) { __gcov_dump(); signal(s, SIG_DFL); raise(s); }
namespace { struct VfCovInit { VfCovInit() { signal(SIGABRT, vf_cov_sig); signal(SIGTERM, vf_cov_sig); } } vfCovInit; }
"""


# ---------------------------------------------------------------- header scanner (heuristic)

def clean_source(text):
    """comments, string/char literals and preprocessor directives replaced by blanks; newlines kept"""
    out = []
    i, n = 0, len(text)
    bol = True          # only white space since the beginning of the line
    while i < n:
        c = text[i]
        if c == "\n":
            out.append(c); i += 1; bol = True
        elif bol and c == "#":
            while i < n:            # directive incl. continuation lines
                if text[i] == "\\" and i + 1 < n and text[i + 1] == "\n":
                    out.append(" \n"); i += 2
                elif text[i] == "\n":
                    break
                elif text.startswith("/*", i):
                    j = text.find("*/", i + 2); j = n if j < 0 else j + 2
                    out.append("".join("\n" if ch == "\n" else " " for ch in text[i:j])); i = j
                else:
                    out.append(" "); i += 1
        elif text.startswith("//", i):
            j = text.find("\n", i); j = n if j < 0 else j
            out.append(" " * (j - i)); i = j
        elif text.startswith("/*", i):
            j = text.find("*/", i + 2); j = n if j < 0 else j + 2
            out.append("".join("\n" if ch == "\n" else " " for ch in text[i:j])); i = j
        elif c == '"' or (c == "'" and not (i > 0 and text[i - 1].isalnum() and i + 1 < n and text[i + 1].isalnum())):
            q = c; j = i + 1
            while j < n and text[j] != q and text[j] != "\n":
                j += 2 if text[j] == "\\" else 1
            j = min(j + 1, n)
            out.append(q + " " * (j - i - 2) + q if j - i >= 2 else " " * (j - i)); i = j; bol = False
        else:
            out.append(c); i += 1
            if not c.isspace():
                bol = False
    return "".join(out)


def _strip_template(head):
    """removes leading `template<...>` clauses"""
    while True:
        m = re.match(r"\s*template\s*<", head)
        if not m:
            return head
        i, depth, par = m.end(), 1, 0
        while i < len(head) and depth > 0:
            ch = head[i]
            if ch in "([":
                par += 1
            elif ch in ")]":
                par -= 1
            elif par == 0 and ch == "<":
                depth += 1
            elif par == 0 and ch == ">":
                depth -= 1
            i += 1
        head = head[i:]


NOT_FN = {"noexcept", "decltype", "sizeof", "alignof", "alignas", "requires", "if", "while", "for", "switch",
          "catch", "throw", "return", "static_assert", "typeid", "defined", "__attribute__", "__declspec"}
NAME_RE = re.compile(r"(operator\s*(?:\(\s*\)|\[\s*\]|[^\s\w(]+|\s+[\w:<>\s\*&]+?)|~?\s*\w+)\s*\(")
SKIP_STMT = re.compile(r"^(typedef|using|static_assert|MOMO_STATIC_ASSERT|friend|template|struct|class|union|enum|"
                       r"static\s+const|static\s+constexpr|constexpr|catch|namespace)\b")
LABEL = re.compile(r"^(?:(?:case\b[^;:]*(?:::[^;:]*)*|default|public|private|protected)\s*:(?!:)\s*)+")


def _head_kind(head, enclosing):
    """returns (kind, name) of the brace block introduced by `head`"""
    h = re.sub(r"\b(public|private|protected)\s*:(?!:)", " ", head)
    h = _strip_template(h).strip()
    h = re.sub(r"^(?:MOMO_\w+(?:\([^()]*\))?\s+|inline\s+|static\s+|extern\s+)+(?=(class|struct|union|namespace|enum)\b)", "", h)
    if enclosing in ("file", "namespace", "class"):
        m = re.match(r"(?:inline\s+)?namespace\b\s*([\w:]*)", h)
        if m:
            return "namespace", m.group(1)
        if re.match(r"extern\b", h) and "(" not in h:
            return "namespace", ""
        m = re.match(r"enum\b", h)
        if m:
            return "enum", ""
        m = re.match(r"(class|struct|union)\b\s*((?:MOMO_\w+\s+|alignas\s*\([^)]*\)\s*)*)(\w*)", h)
        if m:
            return "class", m.group(3)
        if "(" in h:
            name = ""
            for m in NAME_RE.finditer(h):
                cand = re.sub(r"\s+", " ", m.group(1)).replace("~ ", "~").strip()
                if cand in NOT_FN or cand.startswith("MOMO_"):
                    continue
                name = cand
                break
            if name:
                return "function", name
            return "function", "?"
        if "=" in h:
            return "init", ""
        return "other", ""
    # inside a function: local classes, lambdas, control blocks, brace initialisers
    m = re.match(r"(class|struct|union)\b\s*(\w*)", h)
    if m and "(" not in h:
        return "localclass", m.group(2)
    return "block", ""


class Func:
    __slots__ = ("name", "decl_line", "open_line", "close_line", "stmts", "blocks", "bstack")

    def __init__(self, name, decl_line, open_line):
        self.name, self.decl_line, self.open_line, self.close_line = name, decl_line, open_line, open_line
        self.stmts = []     # (first_line, last_line, block) of every statement that looks executable; block = index of
        self.blocks = []    # the innermost inner brace block [open_line, close_line] of the body, -1 = the body itself
        self.bstack = []


def scan_header(path):
    """returns the list of Func of a header (top-level / member function bodies with their statements)"""
    text = open(path, errors="replace").read()
    cl = clean_source(text)
    funcs, warnings = [], []
    stack = [("file", "", 0)]           # (kind, name, saved paren depth)
    classes = []
    cur = None                          # Func being scanned (outermost function body)
    fdepth = 0                          # brace depth inside cur
    par = 0
    head, head_line = [], None          # text since the last delimiter, line of its first non-blank char
    line = 1

    def split_stmt(t, line0):
        """pieces (first_line, last_line, text) of a statement group: `if (..)` / `for (..)` / `else` heads are split off"""
        lead = len(t) - len(t.lstrip())
        line0 += t[:lead].count("\n")
        t = t.strip()
        if not t:
            return []
        m = re.match(r"else\b(?!\s*if\b)", t)
        if m:
            return split_stmt(t[m.end():], line0)
        m = re.match(r"(?:else\s+)?(?:if|for|while|switch)\b\s*(?:constexpr\s*)?\(", t)
        if m:
            j, depth = m.end(), 1
            while j < len(t) and depth > 0:
                depth += 1 if t[j] == "(" else -1 if t[j] == ")" else 0
                j += 1
            z = line0 + t[:j].count("\n")
            return [(line0, z, t[:j])] + split_stmt(t[j:], z)
        return [(line0, line0 + t.count("\n"), t)]

    def flush_stmt(end_line, opener):
        nonlocal head, head_line
        t = "".join(head)
        if cur is not None and t.strip() and head_line is not None:
            lead = len(t) - len(t.lstrip())
            t = t[lead:]
            m = LABEL.match(t)
            line0 = head_line
            if m:
                line0 += t[:m.end()].count("\n")
                t = t[m.end():]
            for a, z, piece in split_stmt(t, line0):
                if SKIP_STMT.match(piece) or re.match(r"^(else|do|try)$", piece):
                    continue
                cur.stmts.append((a, z, cur.bstack[-1] if cur.bstack else -1))
        head, head_line = [], None

    for ch in cl:
        if ch == "\n":
            head.append(ch); line += 1
            continue
        if ch in "([":
            par += 1
        elif ch in ")]":
            par = max(0, par - 1)
        if ch == "{":
            encl = stack[-1][0]
            if par > 0 or encl in ("function", "block", "localclass", "init", "enum", "other"):
                # inside a function body or an expression
                if cur is not None and par == 0 and encl != "init":
                    kind, name = _head_kind("".join(head), encl)
                    # `x = {` / `return {` / `T{` are brace initialisers: keep the statement open
                    t = "".join(head).rstrip()
                    if kind == "block" and (t.endswith("=") or t.endswith(",") or re.search(r"(\breturn|[\w>])$", t)
                                            and not re.search(r"\)\s*(const|noexcept|mutable|->\s*[\w:<> ]+)*\s*$|\b(else|do|try)$", t)):
                        stack.append(("init", "", par)); par = 0; head.append(ch); fdepth += 1
                        continue
                    flush_stmt(line, True)
                    stack.append((kind, name, par)); par = 0; fdepth += 1
                    cur.blocks.append([line, line]); cur.bstack.append(len(cur.blocks) - 1)
                    continue
                stack.append(("init" if encl != "enum" else "other", "", par)); par = 0
                head.append(ch)
                if cur is not None:
                    fdepth += 1
                continue
            htxt = "".join(head)
            kind, name = _head_kind(htxt, encl)
            stack.append((kind, name, par)); par = 0
            if kind == "class":
                classes.append(name)
            if kind == "function":
                qual = "::".join([c for c in classes if c] + [name])
                # declaration line: the line that contains the function name
                dl = head_line if head_line is not None else line
                pos = htxt.find(name + "(") if name not in ("?",) else -1
                if pos < 0:
                    pos = htxt.find(name)
                if pos >= 0 and head_line is not None:
                    lead = len(htxt) - len(htxt.lstrip())
                    dl = head_line + htxt[lead:pos].count("\n") if pos >= lead else head_line
                cur = Func(qual, dl, line); fdepth = 1
                funcs.append(cur)
            head, head_line = [], None
            continue
        if ch == "}":
            if len(stack) <= 1:
                warnings.append("%s:%d unbalanced }" % (path, line))
                continue
            kind, name, saved = stack.pop()
            par = saved
            if cur is not None:
                fdepth -= 1
                if kind == "init" or saved > 0:
                    head.append(ch)
                    if fdepth == 0:     # should not happen
                        cur.close_line = line; cur = None
                    continue
                flush_stmt(line, False)
                if cur.bstack and fdepth > 0:
                    cur.blocks[cur.bstack.pop()][1] = line
                if fdepth == 0:
                    cur.close_line = line
                    cur = None
                continue
            if kind == "class" and classes:
                classes.pop()
            if kind in ("init", "other", "enum") and stack[-1][0] in ("file", "namespace", "class"):
                head.append(ch)         # `= { ... };` continues until the semicolon
                continue
            head, head_line = [], None
            continue
        if ch == ";" and par == 0:
            if cur is not None and stack[-1][0] != "init":
                flush_stmt(line, False)
            elif cur is None:
                head, head_line = [], None
            else:
                head.append(ch)
            continue
        if head_line is None and not ch.isspace():
            head_line = line
        head.append(ch)
    if len(stack) != 1:
        warnings.append("%s: %d unclosed braces at EOF" % (path, len(stack) - 1))
    return funcs, warnings, text.split("\n")


# ---------------------------------------------------------------- builds

def collect_builds(only=None):
    sys.path.insert(0, HERE)
    import registry
    builds, index = [], {}
    for pid in sorted(registry.PROPS):
        if only and pid not in only:
            continue
        for h in registry.PROPS[pid].get("harnesses", []):
            key = (h["src"], tuple(h.get("flags", [])))
            if key in index:
                index[key]["aliases"].append("%s:%s" % (pid, h["name"]))
                continue
            b = {"name": h["name"], "prop": pid, "src": h["src"], "flags": list(h.get("flags", [])),
                 "sanitize": h.get("sanitize") or "", "aliases": ["%s:%s" % (pid, h["name"])]}
            if any(x["name"] == b["name"] for x in builds):
                b["name"] = pid + "_" + b["name"]
            index[key] = b
            builds.append(b)
    return builds


def build_flags(b):
    flags = ["-std=c++17", "-O0", "-fno-access-control", "-I" + INCLUDE, "-I" + HARNESS, "-DMOMO_VERIF", "-pthread"]
    flags += [f for f in b["flags"] if not re.match(r"^-(O.*|g\d?|ggdb.*)$", f)]
    return flags


def norm(path, cwd):
    if not os.path.isabs(path):
        path = os.path.join(cwd, path)
    return os.path.normpath(path)


def momo_rel(path):
    if path.startswith(MOMO + os.sep):
        return path[len(MOMO) + 1:]
    return None


def preprocess_active(b, bdir):
    """header -> sorted list of lines that are not blank after preprocessing in this build"""
    cmd = ["g++", "-E"] + build_flags(b) + [os.path.join(HARNESS, b["src"])]
    p = subprocess.run(cmd, stdout=subprocess.PIPE, stderr=subprocess.DEVNULL, cwd=bdir, timeout=600)
    active = {}
    cur, ln = None, 0
    marker = re.compile(rb'^# (\d+) "((?:[^"\\]|\\.)*)"')
    for raw in p.stdout.split(b"\n"):
        if raw.startswith(b"# "):
            m = marker.match(raw)
            if m:
                ln = int(m.group(1))
                rel = momo_rel(norm(m.group(2).decode("utf-8", "replace"), bdir))
                cur = active.setdefault(rel, set()) if rel else None
                continue
        if cur is not None and raw.strip():
            cur.add(ln)
        ln += 1
    return {k: sorted(v) for k, v in active.items()}


def reduce_gcov(gcov_json, cwd):
    """gcov JSON -> {header: {"lines": {line: executed}, "funcs": {"start-end": [inst, executed inst]}, "br": {...}}}"""
    res = {}
    for f in gcov_json.get("files", []):
        rel = momo_rel(norm(f["file"], cwd))
        if not rel:
            continue
        r = res.setdefault(rel, {"lines": {}, "funcs": {}, "br": {}})
        for fn in f.get("functions", []):
            k = "%d-%d" % (fn["start_line"], fn["end_line"])
            v = r["funcs"].setdefault(k, [0, 0])
            v[0] += 1
            v[1] += 1 if fn.get("execution_count", 0) > 0 else 0
        for l in f.get("lines", []):
            n = str(l["line_number"])
            r["lines"][n] = 1 if (l.get("count", 0) > 0 or r["lines"].get(n)) else 0
            brs = [x for x in l.get("branches", []) if not x.get("throw")]
            if len(brs) >= 2:
                mask = 0
                for i, x in enumerate(brs):
                    if x.get("count", 0) > 0:
                        mask |= 1 << i
                d = r["br"].setdefault(n, {})
                d[str(len(brs))] = d.get(str(len(brs)), 0) | mask
    return res


def run_build(args):
    b, seed, tier, timeout = args
    bdir = os.path.join(ROOT, b["name"])
    shutil.rmtree(bdir, ignore_errors=True)
    os.makedirs(bdir)
    rec = {"name": b["name"], "prop": b["prop"], "aliases": b["aliases"], "src": b["src"], "flags": b["flags"],
           "sanitize_in_registry": b["sanitize"]}
    exe = os.path.join(bdir, b["name"])
    cmd = ["g++"] + build_flags(b) + ["--coverage", "-Wl,--wrap=_exit", os.path.join(HARNESS, b["src"]),
                                      os.path.join(ROOT, "_covhook.o"), "-o", exe]
    rec["compile_cmd"] = " ".join(cmd)
    t0 = time.time()
    try:
        p = subprocess.run(cmd, stdout=subprocess.PIPE, stderr=subprocess.STDOUT, cwd=bdir, timeout=3600)
        rec["compile_rc"], cout = p.returncode, p.stdout.decode("utf-8", "replace")
    except subprocess.TimeoutExpired:
        rec["compile_rc"], cout = 124, "compile timed out"
    rec["compile_s"] = round(time.time() - t0, 1)
    if rec["compile_rc"] != 0:
        rec["compile_output_tail"] = cout[-2000:]
        rec["run_rc"] = None
        return rec
    try:
        active = preprocess_active(b, bdir)
    except Exception as e:      # noqa
        active = {}
        rec["preprocess_error"] = repr(e)
    outdir = os.path.join(bdir, "out")
    os.makedirs(outdir)
    t0 = time.time()
    with open(os.path.join(bdir, "stdout.txt"), "wb") as so:
        p = subprocess.Popen([exe, str(seed), tier, outdir], stdout=so, stderr=subprocess.STDOUT, cwd=bdir)
        try:
            rec["run_rc"] = p.wait(timeout=timeout)
        except subprocess.TimeoutExpired:
            p.send_signal(signal.SIGTERM)       # the hook dumps the counters
            try:
                p.wait(timeout=60)
            except subprocess.TimeoutExpired:
                p.kill(); p.wait()
            rec["run_rc"] = 124
            rec["timed_out_after_s"] = timeout
    rec["run_s"] = round(time.time() - t0, 1)
    try:
        rec["stdout_tail"] = open(os.path.join(bdir, "stdout.txt"), errors="replace").read()[-300:]
    except OSError:
        pass
    shutil.rmtree(outdir, ignore_errors=True)
    t0 = time.time()
    red = {}
    gcdas = [x for x in os.listdir(bdir) if x.endswith(".gcda")]
    rec["gcda"] = len(gcdas)
    for g in gcdas:
        p = subprocess.run([GCOV, "--json-format", "--stdout", "-b", g], stdout=subprocess.PIPE, stderr=subprocess.PIPE, cwd=bdir)
        if p.returncode != 0:
            rec["gcov_error"] = p.stderr.decode("utf-8", "replace")[-500:]
            continue
        # --stdout prints one JSON document per data file
        dec, s, pos = json.JSONDecoder(), p.stdout.decode("utf-8", "replace"), 0
        while pos < len(s):
            while pos < len(s) and s[pos].isspace():
                pos += 1
            if pos >= len(s):
                break
            doc, pos = dec.raw_decode(s, pos)
            part = reduce_gcov(doc, doc.get("current_working_directory", bdir))
            for hdr, r in part.items():
                t = red.setdefault(hdr, {"lines": {}, "funcs": {}, "br": {}})
                for n, v in r["lines"].items():
                    t["lines"][n] = 1 if (v or t["lines"].get(n)) else 0
                for k, v in r["funcs"].items():
                    w = t["funcs"].setdefault(k, [0, 0]); w[0] += v[0]; w[1] += v[1]
                for n, d in r["br"].items():
                    w = t["br"].setdefault(n, {})
                    for sig, mask in d.items():
                        w[sig] = w.get(sig, 0) | mask
    rec["gcov_s"] = round(time.time() - t0, 1)
    rec["momo_lines_seen"] = sum(len(r["lines"]) for r in red.values())
    rec["momo_lines_executed"] = sum(sum(r["lines"].values()) for r in red.values())
    with open(os.path.join(bdir, "reduced.json"), "w") as f:
        json.dump({"cov": red, "active": active}, f)
    for x in os.listdir(bdir):      # free the disk early: executables are large
        if x not in ("reduced.json", "stdout.txt"):
            try:
                os.remove(os.path.join(bdir, x))
            except OSError:
                shutil.rmtree(os.path.join(bdir, x), ignore_errors=True)
    return rec


# ---------------------------------------------------------------- aggregation and report

def ranges(nums):
    out = []
    for n in sorted(nums):
        if out and n == out[-1][1] + 1:
            out[-1][1] = n
        else:
            out.append([n, n])
    return out


def list_headers():
    hs = []
    for d, _, fs in os.walk(MOMO):
        for f in fs:
            if f.endswith(".h"):
                hs.append(os.path.relpath(os.path.join(d, f), MOMO))
    return sorted(hs, key=lambda x: (x.count("/"), x))


def aggregate(recs):
    lines, funcs, br, active = {}, {}, {}, {}
    for rec in recs:
        p = os.path.join(ROOT, rec["name"], "reduced.json")
        if not os.path.exists(p):
            continue
        d = json.load(open(p))
        for hdr, r in d["cov"].items():
            t = lines.setdefault(hdr, {})
            for n, v in r["lines"].items():
                n = int(n)
                t[n] = 1 if (v or t.get(n)) else 0
            t = funcs.setdefault(hdr, {})
            for k, v in r["funcs"].items():
                w = t.setdefault(k, [0, 0]); w[0] += v[0]; w[1] += v[1]
            t = br.setdefault(hdr, {})
            for n, dd in r["br"].items():
                w = t.setdefault(int(n), {})
                for sig, mask in dd.items():
                    w[int(sig)] = w.get(int(sig), 0) | mask
        for hdr, ls in d["active"].items():
            active.setdefault(hdr, set()).update(ls)
    return lines, funcs, br, active


def analyse(recs):
    lines, gfuncs, br, active = aggregate(recs)
    result, warnings = {}, []
    for hdr in list_headers():
        funcs, w, src = scan_header(os.path.join(MOMO, hdr))
        warnings += w
        L = lines.get(hdr, {})
        act = active.get(hdr, set())
        included = hdr in active
        executed = {n for n, v in L.items() if v}
        uncovered = {n for n, v in L.items() if not v}
        never, inactive = set(), set()
        stmt_of = {}
        frecs = []
        starts = [f.decl_line for f in funcs]
        for f in funcs:
            lo, hi = f.decl_line, f.close_line
            g_lines = [n for n in L if lo <= n <= hi]
            f_never, f_inact = set(), set()
            for a, z, blk in f.stmts:
                if any(n in L for n in range(a, z + 1)):
                    continue
                if g_lines:
                    # the function is instantiated: gcov is authoritative (declarations, inlined calls, `while (true)` have no
                    # code of their own) unless a whole inner block (generic lambda, local class) is missing from gcov
                    if blk < 0 or any(f.blocks[blk][0] <= n <= f.blocks[blk][1] for n in g_lines):
                        continue
                if included and not any(n in act for n in range(a, z + 1)):
                    f_inact.add(a)
                else:
                    f_never.add(a)
                stmt_of[a] = z
            if not g_lines:
                # nothing of the function was ever compiled into a harness
                if f_never or not f.stmts:
                    if (not included) or any(n in act for n in range(lo, hi + 1)):
                        f_never.add(f.decl_line)
                    else:
                        f_inact.add(f.decl_line)
                status = "never instantiated" if f_never else "pp-inactive"
            else:
                ex = [n for n in g_lines if L[n]]
                if not ex:
                    status = "instantiated, never executed"
                elif len(ex) < len(g_lines) or f_never:
                    status = "partial"
                else:
                    status = "full"
            never |= f_never
            inactive |= f_inact
            frecs.append({"name": f.name, "decl_line": f.decl_line, "end_line": f.close_line, "status": status,
                          "gcov_lines": len(g_lines), "executed": len([n for n in g_lines if L[n]]),
                          "uncovered": sorted(n for n in g_lines if not L[n]),
                          "never_instantiated": sorted(f_never), "pp_inactive": sorted(f_inact)})
        never -= set(L)
        partial_br = sorted(n for n, d in br.get(hdr, {}).items() if n in executed
                            and any(mask != (1 << sig) - 1 for sig, mask in d.items()))
        def enclosing(n):
            i = bisect.bisect_right(starts, n) - 1
            while i >= 0:
                if funcs[i].decl_line <= n <= funcs[i].close_line:
                    return funcs[i].name
                i -= 1
            return "(class/namespace scope)"

        # MOMO_CHECK(expr) lines: the check was seen failing if in some instantiation every branch direction of the line was
        # taken (builds whose check mode is `assertion` always keep the never-taken abort branch and cannot qualify)
        checks = []
        for n, text in enumerate(src, 1):
            if "MOMO_CHECK(" not in text or text.lstrip().startswith("#"):
                continue
            if n in executed:
                d = br.get(hdr, {}).get(n)
                if d is None or any(mask == (1 << sig) - 1 for sig, mask in d.items()):
                    continue
                state = "executed, never seen failing"
            elif n in uncovered:
                state = "instantiated, never executed"
            else:
                state = "never instantiated"
            checks.append({"line": n, "state": state, "text": text.strip()})

        def group(nums, others):
            """merge flagged lines into ranges: same enclosing function, no executed line in between"""
            out = []
            for n in sorted(nums):
                fn = enclosing(n)
                if out and out[-1]["function"] == fn and not any(out[-1]["last"] < x < n for x in others):
                    out[-1]["last"] = n; out[-1]["count"] += 1
                else:
                    out.append({"first": n, "last": n, "count": 1, "function": fn,
                                "text": src[n - 1].strip() if n - 1 < len(src) else ""})
            for o in out:
                o["last"] = max(o["last"], stmt_of.get(o["last"], o["last"]))
            return out

        result[hdr] = {
            "included_by_some_build": included,
            "source_lines": len(src),
            "executable": len(executed) + len(uncovered) + len(never),
            "executed": len(executed), "uncovered": len(uncovered), "never_instantiated": len(never),
            "pp_inactive": len(inactive), "lines_with_untaken_branch": len(partial_br),
            "functions": len(frecs),
            "functions_by_status": {s: sum(1 for f in frecs if f["status"] == s) for s in
                                    ("full", "partial", "instantiated, never executed", "never instantiated", "pp-inactive")},
            "uncovered_ranges": group(uncovered, executed | never),
            "never_instantiated_ranges": group(never, executed | uncovered),
            "pp_inactive_ranges": group(inactive, executed | uncovered | never),
            "untaken_branch_lines": partial_br,
            "checks_never_failing": [dict(c, function=enclosing(c["line"])) for c in checks],
            "function_list": frecs,
        }
    return result, warnings


def write_reports(result, recs, warnings, outdir, args):
    os.makedirs(outdir, exist_ok=True)
    tot = {k: sum(r[k] for r in result.values()) for k in ("executable", "executed", "uncovered", "never_instantiated", "pp_inactive",
                                                            "lines_with_untaken_branch", "functions")}
    fst = {}
    for r in result.values():
        for s, n in r["functions_by_status"].items():
            fst[s] = fst.get(s, 0) + n
    summary = {"generated": time.strftime("%Y-%m-%d %H:%M:%S"), "tier": args.tier, "seed": args.seed,
               "only": args.only or "all", "compiler": "g++ -std=c++17 -O0 --coverage (no sanitizers), " + GCOV,
               "totals": tot, "functions_by_status": fst, "builds": recs, "scanner_warnings": warnings, "headers": result}
    with open(os.path.join(outdir, "coverage_summary.json"), "w") as f:
        json.dump(summary, f, indent=1)

    def pct(a, b):
        return "%.1f%%" % (100.0 * a / b) if b else "-"

    o = []
    o.append("# Coverage of /repo/include/momo by the correspondence harnesses\n")
    o.append("Generated %s by `tools/coverage.py`%s; tier `%s`, seed %d; %d harness builds (`g++ -std=c++17 -O0 --coverage`, no sanitizers, %s).\n"
             % (summary["generated"], " --only " + args.only if args.only else "", args.tier, args.seed, len(recs), os.path.basename(GCOV)))
    o.append("A line counts as *executed* if any template instantiation in any build executed it. *Uncovered*: gcov reports the line as "
             "executable in some instantiation, nothing executed it. *Never instantiated (heuristic)*: a statement inside a function body "
             "(found by a brace/statement scanner, not by a compiler) that is alive after preprocessing in some build but appears in no "
             "build's gcov data - the function, or the `if constexpr`/SFINAE branch, was never compiled into any harness. *pp-inactive*: "
             "statements that the preprocessor removes in every build (other compiler, other language standard, switched-off option); "
             "they are not part of `executable`.\n")
    o.append("## Totals per header\n")
    o.append("| header | executable lines | executed | uncovered | never instantiated | covered | pp-inactive | lines with an untaken branch | functions: full / partial / never executed / never instantiated |")
    o.append("|---|---:|---:|---:|---:|---:|---:|---:|---|")
    for hdr, r in result.items():
        s = r["functions_by_status"]
        o.append("| %s%s | %d | %d | %d | %d | %s | %d | %d | %d / %d / %d / %d |" % (
            hdr, "" if r["included_by_some_build"] else " (included by no build)", r["executable"], r["executed"], r["uncovered"],
            r["never_instantiated"], pct(r["executed"], r["executable"]), r["pp_inactive"], r["lines_with_untaken_branch"],
            s["full"], s["partial"], s["instantiated, never executed"], s["never instantiated"]))
    o.append("| **total** | %d | %d | %d | %d | %s | %d | %d | %d / %d / %d / %d |\n" % (
        tot["executable"], tot["executed"], tot["uncovered"], tot["never_instantiated"], pct(tot["executed"], tot["executable"]),
        tot["pp_inactive"], tot["lines_with_untaken_branch"], fst.get("full", 0), fst.get("partial", 0),
        fst.get("instantiated, never executed", 0), fst.get("never instantiated", 0)))
    o.append("## Harness builds\n")
    o.append("| build | registered as | compile s | run s | exit code | momo lines seen | executed |")
    o.append("|---|---|---:|---:|---:|---:|---:|")
    for rec in recs:
        o.append("| %s | %s | %s | %s | %s | %s | %s |" % (rec["name"], ", ".join(rec["aliases"]), rec.get("compile_s", "-"), rec.get("run_s", "-"),
                                                       rec.get("run_rc") if rec.get("compile_rc") == 0 else "compile failed (%s)" % rec.get("compile_rc"),
                                                       rec.get("momo_lines_seen", "-"), rec.get("momo_lines_executed", "-")))
    o.append("")
    if warnings:
        o.append("Scanner warnings: " + "; ".join(warnings) + "\n")
    o.append("## Uncovered and never-instantiated code per header\n")
    o.append("Format: `first-last` (flagged lines in the range) `function` - source text of the first line.\n")
    for hdr, r in result.items():
        o.append("### %s\n" % hdr)
        o.append("executable %d, executed %d, uncovered %d, never instantiated %d, pp-inactive %d\n" % (
            r["executable"], r["executed"], r["uncovered"], r["never_instantiated"], r["pp_inactive"]))
        for title, key in (("Uncovered (instantiated, never executed)", "uncovered_ranges"),
                           ("Never instantiated (heuristic)", "never_instantiated_ranges"),
                           ("Removed by the preprocessor in every build (not counted)", "pp_inactive_ranges")):
            if not r[key]:
                continue
            o.append("**%s**\n" % title)
            for g in r[key]:
                rng = "%d" % g["first"] if g["first"] == g["last"] else "%d-%d" % (g["first"], g["last"])
                o.append("- `%s` (%d) `%s` - `%s`" % (rng, g["count"], g["function"], g["text"].replace("`", "'")[:110]))
            o.append("")
        if r["checks_never_failing"]:
            o.append("**`MOMO_CHECK` lines whose failure was never provoked** (heuristic: no instantiation took every branch direction of the line)\n")
            for c in r["checks_never_failing"]:
                o.append("- `%d` `%s` (%s) - `%s`" % (c["line"], c["function"], c["state"], c["text"][:110]))
            o.append("")
        if r["untaken_branch_lines"]:
            o.append("**Executed lines with a branch direction never taken** (all instantiations merged): " +
                     ", ".join("%d" % a if a == b else "%d-%d" % (a, b) for a, b in ranges(r["untaken_branch_lines"])) + "\n")
    with open(os.path.join(outdir, "coverage_report.md"), "w") as f:
        f.write("\n".join(o) + "\n")
    return tot


def main():
    ap = argparse.ArgumentParser(description=__doc__, formatter_class=argparse.RawDescriptionHelpFormatter)
    ap.add_argument("--only", default="", help="comma separated property ids, e.g. C05,C16")
    ap.add_argument("--jobs", type=int, default=8)
    ap.add_argument("--keep", action="store_true", help="keep /tmp/verif-cov")
    ap.add_argument("--timeout", type=int, default=1200, help="run timeout per harness in seconds")
    ap.add_argument("--seed", type=int, default=1)
    ap.add_argument("--tier", default="quick")
    ap.add_argument("--outdir", default=os.path.join(VERIF, "coverage"))
    ap.add_argument("--reuse", action="store_true", help="do not rebuild builds whose reduced.json exists in /tmp/verif-cov (implies --keep)")
    ap.add_argument("--scan", default="", help="debug: print the scanner's view of one header and exit")
    args = ap.parse_args()
    if args.scan:
        funcs, warns, src = scan_header(args.scan)
        for f in funcs:
            print("%5d-%-5d %s  stmts=%s" % (f.decl_line, f.close_line, f.name, f.stmts))
        print(warns)
        return 0
    if os.path.realpath(args.outdir).startswith(os.path.realpath(REPO) + os.sep):
        sys.exit("refusing to write below " + REPO)
    only = set(x.strip() for x in args.only.split(",") if x.strip()) or None
    builds = collect_builds(only)
    os.makedirs(ROOT, exist_ok=True)
    with open(os.path.join(ROOT, "_covhook.cpp"), "w") as f:
        f.write(HOOK_SRC)
    subprocess.run(["g++", "-O1", "-c", os.path.join(ROOT, "_covhook.cpp"), "-o", os.path.join(ROOT, "_covhook.o")], check=True)
    recs, todo = [], []
    for b in builds:
        rp = os.path.join(ROOT, b["name"], "rec.json")
        if args.reuse and os.path.exists(rp) and os.path.exists(os.path.join(ROOT, b["name"], "reduced.json")):
            recs.append(json.load(open(rp)))
        else:
            todo.append(b)
    print("%d builds (%d to run), %d jobs" % (len(builds), len(todo), args.jobs), flush=True)
    t0 = time.time()
    with concurrent.futures.ProcessPoolExecutor(max_workers=args.jobs) as ex:
        futs = {ex.submit(run_build, (b, args.seed, args.tier, args.timeout)): b for b in todo}
        for i, fut in enumerate(concurrent.futures.as_completed(futs), 1):
            b = futs[fut]
            try:
                rec = fut.result()
            except Exception as e:      # noqa
                rec = {"name": b["name"], "prop": b["prop"], "aliases": b["aliases"], "src": b["src"], "flags": b["flags"],
                       "compile_rc": -1, "run_rc": None, "error": repr(e)}
            recs.append(rec)
            try:
                with open(os.path.join(ROOT, b["name"], "rec.json"), "w") as f:
                    json.dump(rec, f)
            except OSError:
                pass
            print("[%3d/%d %5.0fs] %-28s compile %ss rc=%s, run %ss rc=%s, momo lines %s/%s" % (
                i, len(todo), time.time() - t0, rec["name"], rec.get("compile_s"), rec.get("compile_rc"), rec.get("run_s"), rec.get("run_rc"),
                rec.get("momo_lines_executed"), rec.get("momo_lines_seen")), flush=True)
    order = {b["name"]: i for i, b in enumerate(builds)}
    recs.sort(key=lambda r: order.get(r["name"], 1 << 30))
    result, warnings = analyse(recs)
    tot = write_reports(result, recs, warnings, args.outdir, args)
    print("total: executable %(executable)d, executed %(executed)d, uncovered %(uncovered)d, never instantiated %(never_instantiated)d" % tot)
    print("reports in " + args.outdir)
    if not (args.keep or args.reuse):
        shutil.rmtree(ROOT, ignore_errors=True)
    return 0


if __name__ == "__main__":
    sys.exit(main())
