#!/usr/bin/env python3
"""Writes /verif/MANIFEST.json from tools/registry.py (single source of truth for checks)."""
import json, os, sys
HERE = os.path.dirname(os.path.abspath(__file__))
sys.path.insert(0, HERE)
import registry

VERIF = os.path.dirname(HERE)
props = [json.loads(l) for l in open(os.path.join(VERIF, "properties.jsonl"))]
checks = []
na = []
for p in props:
    pid = p["id"]
    r = registry.PROPS.get(pid)
    if r is None or r.get("disabled"):
        na.append({"property_id": pid, "reason": registry.NOT_YET.get(pid, "machinery for this property is not built yet; no claim is made")})
        continue
    checks.append({
        "property_id": pid,
        "quick_cmd": "python3 tools/verif.py check %s --tier quick" % pid,
        "thorough_cmd": "python3 tools/verif.py check %s --tier thorough" % pid,
        "evidence_file": "/verif/evidence/%s.json" % pid,
        "replay_cmd_template": "python3 tools/verif.py replay {path}",
        "engine": "lean4-proof+correspondence",
        "level_claimed": {"category": r.get("level", "proof"), "text": r["level_text"], "design_ref": "DESIGN.md section 5, " + pid},
        "level_note": r["level_note"],
        "technique": r.get("technique", "Lean 4 theorems over an executable model + model/implementation correspondence check"),
    })
m = {
    "version": 1,
    "setup_cmd": "python3 tools/verif.py setup",
    "hooks": {
        "guard": "MOMO_VERIF",
        "enable": "harnesses are compiled with -DMOMO_VERIF -fno-access-control -I/repo/include (header-only library; no source hooks were needed so far)",
        "baseline_off_cmd": "cmake --build /repo/_build && /repo/_build/test/momo_test",
        "source_commits": registry.HOOK_COMMITS,
        "add_only": True,
    },
    "engines": [
        {"name": "lean4-proof+correspondence", "path": "tools/verif.py",
         "serves_properties": [c["property_id"] for c in checks],
         "kind_free_text": "Lean 4 theorems about hand-written executable models (lean/Momo); constants (tools/extract.py) and the bodies of small "
                           "integer functions (tools/translate.py, with kernel-checked equalities to the model functions) are regenerated from the "
                           "headers on every run; models tied to the code by a line-protocol correspondence check (harness/*.cpp vs lean/Driver)"}],
    "checks": checks,
    "not_applicable": na,
    "notes": "See DESIGN.md. Known findings: known_findings.json. Seeded changes used to test the checks: seeded/.",
}
json.dump(m, open(os.path.join(VERIF, "MANIFEST.json"), "w"), indent=1)
print("MANIFEST.json: %d checks, %d not_applicable" % (len(checks), len(na)))
