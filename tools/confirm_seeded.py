#!/usr/bin/env python3
"""Independent confirmation of a seeded change before it is kept under /verif/seeded/<id>/.

  confirm_seeded.py <seed-id> <property> --from <dir with patch.diff, demo.cpp[, notes.md]> [--flags "<g++ flags>"] [--skip-suite]

In a fresh scratch worktree of /repo (removed afterwards, with its build output):
  1. demo.cpp against the unmodified library must exit 0,
  2. the patch must apply; demo.cpp with the patch must fail (non-zero exit / sanitizer abort / signal),
  3. the library's own test suite, built with the patch the way the baseline is built, must pass (2328 ": ok" lines, exit 0).
Only if all three hold are patch.diff, demo.cpp, notes.md copied to /verif/seeded/<id>/ and meta.json written.
Nothing is ever applied to /repo here.
"""
import sys, os, json, subprocess, shutil, time, argparse

VERIF = os.path.dirname(os.path.dirname(os.path.abspath(__file__)))


def sh(cmd, cwd=None, timeout=7200):
    p = subprocess.run(cmd, cwd=cwd, shell=True, stdout=subprocess.PIPE, stderr=subprocess.STDOUT, timeout=timeout)
    return p.returncode, p.stdout.decode("utf-8", "replace")


def main():
    ap = argparse.ArgumentParser()
    ap.add_argument("sid")
    ap.add_argument("prop")
    ap.add_argument("--from", dest="src", required=True)
    ap.add_argument("--flags", default="-std=c++17 -O1")
    ap.add_argument("--skip-suite", action="store_true")
    ap.add_argument("--needs", default="")
    ap.add_argument("--change", default="")
    a = ap.parse_args()
    wt = "/tmp/confirm/wt-%s" % a.sid
    os.makedirs("/tmp/confirm", exist_ok=True)
    sh("git -C /repo worktree remove --force %s" % wt)
    rc, out = sh("git -C /repo worktree add --detach %s HEAD" % wt)
    if rc != 0:
        print(out)
        return 2
    res = {}
    ok = False
    try:
        demo = os.path.join(a.src, "demo.cpp")
        exe = "/tmp/confirm/demo-%s" % a.sid
        cmd = "g++ %s -I%s/include %s -o %s" % (a.flags, wt, demo, exe)
        rc, out = sh(cmd)
        res["demo_compile_clean"] = {"cmd": cmd, "rc": rc, "tail": out[-500:]}
        rc1, out1 = sh("timeout 600 " + exe)
        res["demo_run_clean"] = {"rc": rc1, "tail": out1[-600:]}
        rc, out = sh("git -C %s apply %s" % (wt, os.path.join(a.src, "patch.diff")))
        res["patch_applies"] = rc == 0
        if rc != 0:
            res["patch_error"] = out[-500:]
        files = sh("git -C %s diff --stat" % wt)[1]
        res["diffstat"] = files.strip().split("\n")
        rc, out = sh(cmd)
        res["demo_compile_patched"] = {"rc": rc, "tail": out[-500:]}
        rc2, out2 = sh("timeout 600 " + exe)
        res["demo_run_patched"] = {"rc": rc2, "tail": out2[-1200:]}
        suite_ok = None
        if not a.skip_suite:
            t0 = time.time()
            rc, out = sh("cmake -G Ninja -B _build -DMOMO_TEST=ON -DCMAKE_BUILD_TYPE=RelWithDebInfo -DCMAKE_CXX_FLAGS=-Wno-error > /dev/null && "
                         "flock /tmp/seed/build.lock cmake --build _build -j12 2>&1 | tail -3", cwd=wt)
            rc3, out3 = sh("./_build/test/momo_test", cwd=wt, timeout=1800)
            n_ok = sum(1 for l in out3.split("\n") if l.rstrip().endswith(": ok"))
            suite_ok = rc == 0 and rc3 == 0 and n_ok == 2328
            res["suite_patched"] = {"build_rc": rc, "build_tail": out[-300:], "run_rc": rc3, "ok_lines": n_ok, "wall_s": round(time.time() - t0)}
        ok = rc1 == 0 and res["patch_applies"] and rc2 != 0 and (suite_ok is not False)
        res["confirmed"] = ok
    finally:
        sh("git -C /repo worktree remove --force %s" % wt)
        sh("rm -rf %s /tmp/confirm/demo-%s" % (wt, a.sid))
    print(json.dumps(res, indent=1))
    if not ok:
        print("NOT CONFIRMED")
        return 1
    d = os.path.join(VERIF, "seeded", a.sid)
    os.makedirs(d, exist_ok=True)
    for f in ("patch.diff", "demo.cpp", "notes.md"):
        if os.path.exists(os.path.join(a.src, f)):
            shutil.copy2(os.path.join(a.src, f), os.path.join(d, f))
    mp = os.path.join(d, "meta.json")
    meta = json.load(open(mp)) if os.path.exists(mp) else {}
    meta.update({"id": a.sid, "breaks_property": a.prop,
                 "author": "independent sub-agent (given only the property text and a scratch worktree; nothing from /verif)",
                 "change": a.change or meta.get("change", "see notes.md"),
                 "needs_to_manifest": a.needs or meta.get("needs_to_manifest", "see notes.md"),
                 "demo_flags": a.flags,
                 "confirmed_by_main_session": res,
                 "what_i_ran": "python3 tools/confirm_seeded.py %s %s --from %s --flags '%s'" % (a.sid, a.prop, a.src, a.flags)})
    json.dump(meta, open(mp, "w"), indent=1)
    print("CONFIRMED -> %s" % d)
    return 0


if __name__ == "__main__":
    sys.exit(main())
