"""Registry entry of property C01 (hash set/map contents equal the abstract set/map)."""

PROP = {
    "id": "C01",
    "level": "proof",
    "technique": "Lean 4 proof (placement invariant by induction over operations, refinement to a finite map) + state-machine correspondence on the complete bucket layout",
    "level_text": ("Kernel-checked theorems over an executable model of HashSet/HashMap that is generic in the bucket type (maxCount, probing rule, "
                   "WasFull rule, search-bound encoder, capacity rule) and universally quantified over the hash function: lookup = membership under "
                   "the placement invariant, every operation preserves the invariant and refines the abstract map, traversal visits each element "
                   "once. The model is run against the real containers for all bucket types on every check and must reproduce results, counts, "
                   "capacities, generations and the complete bucket layout (items in storage order, WasFull flags, search bounds). GetStartBucketIndex, the four GetNextBucketIndex variants, BucketBase::GetMaxProbe, GetBucketCountShift (base and open-addressing), HashBucketBase::CalcCapacity (integer branches; the one floating-point expression stays an uninterpreted parameter) and HashSet::pvGetNewLogBucketCount are additionally TRANSLATED from the header text on every run (tools/translate.py, tools/trspecs/HashProbe.py) and proved equal to the model's start / nextIdx / maxProbe / shiftOf / newLog / capacityOf; the model's slot search is the probe loop over the translated functions (C01_*_translated). For the two open-addressing bucket classes with one state byte (BucketOpenN1<1..7, reverse>, BucketOpen8) the bucket is additionally modelled at BYTE level (Momo.OpenB, run against the real bucket classes by the C13 harness c13_openbytes): the abstract bucket of the table model is the abstraction of the byte-level bucket, AddCrt / Remove / IsFull commute with it, the table model's in-bucket lookup agrees with the byte-level Find of every variant (scalar loop in either item order, SSE2 mask, 64-bit SWAR mask), and pvFind evaluated over byte-level buckets is the model's findTable, so C01_find_iff holds for it (C01_*_bytes)."),
    "level_note": ("Trusted: Lean kernel + 3 standard axioms, extractor, harness (g++, -fno-access-control). Modelled not verified: item layout and "
                   "alignment inside buckets, memcpy relocation, short-hash bytes (C12), SSE2 in-bucket search of Open8, float capacity formulas "
                   "(modelled as exact rational floor; compared at every growth)."),
    "modules": ["Momo.Props.C01"],
    "theorems": [
        "Momo.HT.mkSpec_ok",
        "Momo.HT.mkSpec_ok_unlimP",
        "Momo.HT.C01_find_iff",
        "Momo.HT.C01_find_value",
        "Momo.HT.C01_count_traverse",
        "Momo.HT.C01_insert_succeeds",
        "Momo.HT.insert_refines_partial",
        "Momo.HT.step_refines_partial",
        "Momo.HT.run_refines_partial",
        "Momo.HT.C01_history_partial",
        "Momo.HT.C01_copy_fits",
        "Momo.HT.C01_probe_path_translated",
        "Momo.HT.C01_slot_search_translated",
        "Momo.HT.C01_growth_translated",
        "Momo.HT.unrestricted_faults_counterexample",
        "Momo.HT.C01_history_full_false",
        "Momo.OpenB.C01_bucket_abstraction_bytes",
        "Momo.OpenB.C01_bucket_lookup_bytes",
        "Momo.OpenB.C01_find_iff_bytes",
        "Momo.OpenB.C01_slots_translated",
    ],
    "harnesses": [
        {"name": "c01_chain", "src": "c01_hash.cpp", "flags": ["-DVF_PART=0"]},
        {"name": "c01_old", "src": "c01_hash.cpp", "flags": ["-DVF_PART=1"]},
        {"name": "c01_open", "src": "c01_hash.cpp", "flags": ["-DVF_PART=2"]},
        # configuration corners: LimP<7>/<15> with pointer state (DivBySmall general branch), pools with one block per buffer
        {"name": "c01_cfg", "src": "c01_hash.cpp", "flags": ["-DVF_PART=3"]},
        # maps whose key and value are both element classes (model level): 10 combinations of relocation / assignment categories
        {"name": "c01_mapcat", "src": "c01_hash.cpp", "flags": ["-DVF_PART=4"]},
    ] + [
        # property level, all 16 key x value category combinations, HashMap API spellings (described under C04 rule (g))
        {"name": "c01_mapsweep_%d" % k, "src": "c10_mapcat.cpp", "sanitize": "asan", "flags": ["-DMC_PART=%d" % k, "-O0"], "timeout_quick": 600, "timeout_thorough": 3000}
        for k in range(1, 5)
    ] + [
        # the LimP4 instantiations with 48- / 32-bit pointer states (32: every allocation from a MAP_32BIT arena); the global macro is
        # needed because momo ignores a manager's own ptrUsefulBitCount (observation O3, harness/common/verif_ptrbits.h)
        {"name": "c01_chain_p48", "src": "c01_hash.cpp", "flags": ["-DVF_PART=0", "-DVF_PTRBITS=48", "-DMOMO_MEM_MANAGER_PTR_USEFUL_BIT_COUNT=48"]},
        {"name": "c01_chain_p32", "src": "c01_hash.cpp", "flags": ["-DVF_PART=0", "-DVF_PTRBITS=32", "-DMOMO_MEM_MANAGER_PTR_USEFUL_BIT_COUNT=32"]},
    ],
    "rule": ("random histories (insert, find, remove by key / predicate, reserve, clear with and without shrink, extract + re-insert, copy, move, "
             "swap, merge; 260 ops quick / 1200 thorough per run; 10 runs quick / 36 thorough per instantiation, three times as many for slow-hash traits, whose buckets keep hash bits that are reused on growth) over 28 instantiations = 12 bucket types x item kinds (4/16/40-byte trivially "
             "relocatable, nothrow-move, copy-only) x set/map x fast/slow hash, hash family drawn from {constant, low 4 bits, high byte, identity, "
             "multiplicative, two clusters}, key ranges 12..600 so that tables cross several growth thresholds; after every op the model must print "
             "the same result, count, capacity, generations and layout checksum; every 16 ops the property-level oracle (std::map) checks every "
             "key, absent keys and the traversal. distinct_nontrivial = number of distinct (instantiation, hash family, run) histories. "
             "Added for coverage: c01_cfg = 12 more instantiations (HashBucketLimP<7> with 8-/16-byte items, a map, a copy-only 8-byte key, LimP<15> with a "
             "16-byte item of alignment 16: pointer+count words decoded with divisors up to 16; LimP / LimP1 / LimP4 over MemPoolParams<1>: bucket arrays "
             "given back one by one on Clear); c01_chain_p48 / _p32 = the eight LimP4 instantiations with 6- and 4-byte pointer states (32: arena below 4 GB). "
             "In every history: Reserve of 2^20 more than the largest legal table holds and an insertion into a table without buckets whose traits ask for "
             "2^(max+1) start buckets must throw std::length_error and leave the layout unchanged (the model predicts E:length from maxlog = "
             "log2 of HashSetBuckets::maxBucketCount); every 16 ops and after every op with >= 2 generations GetBucketCount / GetBucketBounds(i) / "
             "GetBucketIndex(key) are compared with a direct walk over all generations (property level)."),
    "runtime_only": ["leak / double-free ledger of the memory manager and element counters at the end of every history (C03 piggyback)"],
    "not_modelled": ["short-hash bytes and hash-probe bytes of LimP4 / Open2N2 / One inside the table model (byte level: C12; OpenN1 / Open8 byte level: C01_*_bytes, C13_open*)", "in-bucket scan order of Find inside the table model (irrelevant while keys are distinct; at byte level C13_openbytes_find_every_order covers every order)",
                     "ResetKey, Add(position) variants (forwarders to the modelled pvAdd)"],
}
