"""Registry entry of property C20 (see tools/registry.py)."""

_FLAGS = ["-O0"]   # the container templates under ASan+UBSan compile 3x faster without the optimiser; run time is negligible

PROP = {
    "id": "C20",
    "level": "proof",
    "technique": ("Lean 4 proof (invariants by induction over all operation histories of an allocator-level and a container-level state "
                  "machine; F13 witness by decide) + correspondence of the real allocator under std containers at two levels"),
    "level_text": ("Kernel-checked theorems over ALL histories (all value-type parameters, counts, addresses, all answers of the pool about its "
                   "buffers, all interleavings of copy / move / swap / splice / assignment between any number of containers and allocator objects): "
                   "with one single-object type per busy pool every deallocate returns the block to the kind of memory it came from, "
                   "GetAllocateCount = live pool blocks, and the unrestricted statement is refuted by the F13 history; a copy gets a pool that did not "
                   "exist and nothing that existed changes; a container's calls touch only its own pool and blocks; move construction / move "
                   "assignment / swap carry pool and blocks along; every live block is held by a container attached to the pool it came from; "
                   "use_count = attached containers and allocator objects; a pool without owners is dead with nothing outstanding at the base "
                   "allocator; freeing an owned block and the final destructor call always succeed. The model is executable: the real "
                   "unsynchronized_pool_allocator under std::list / forward_list / map / set / multimap / multiset / unordered_* is compared with it "
                   "call by call (pointers, parameters, counts, owner counts, every base-allocator call) on every run."),
    "level_note": ("Trusted: Lean kernel, the three standard axioms, extractor, correspondence harness. 'Behaves exactly as with std::allocator' "
                   "(contents of libstdc++'s containers) is differential evidence against std::allocator twins, not a theorem. MemPool is C09's: in "
                   "the theorems it is the component 'parameters, count, buffers held, the destructor / re-parameterisation returns every buffer'; "
                   "the driver instantiates it with C09's pool state machine so that the run compares addresses and base-allocator calls exactly. "
                   "The container layer models what [container.requirements.general] prescribes for an allocator-aware container with the "
                   "propagation traits extracted from pool_allocator.h; libstdc++ itself is the environment (which blocks a call allocates / frees "
                   "is an input). Histories that break a C++ precondition (double free, foreign allocator, splice between unequal allocators) "
                   "end with Err.illegal and are outside the statements."),
    "modules": ["Momo.Props.C20"],
    "theorems": [
        "Momo.PoolAlloc.C20_dealloc_provenance",
        "Momo.PoolAlloc.C20_dealloc_provenance_no_raw_single",
        "Momo.PoolAlloc.C20_dealloc_provenance_unrestricted_false",
        "Momo.PoolAlloc.C20_dealloc_provenance_unrestricted_false_containers",
        "Momo.PoolAlloc.C20_dealloc_provenance_containers",
        "Momo.PoolAlloc.C20_owner_free_succeeds",
        "Momo.PoolAlloc.C20_copy_independent_pools",
        "Momo.PoolAlloc.C20_container_touches_only_own_pool",
        "Momo.PoolAlloc.C20_move_construct_carries_pool",
        "Momo.PoolAlloc.C20_move_assign_carries_pool",
        "Momo.PoolAlloc.C20_swap_carries_pool",
        "Momo.PoolAlloc.C20_blocks_follow_their_pool",
        "Momo.PoolAlloc.C20_last_owner_returns_all",
        "Momo.PoolAlloc.C20_all_destroyed_ledger_empty",
        "Momo.PoolAlloc.C20_destructor_drop_succeeds",
    ],
    "harnesses": [
        {"name": "c20_direct", "src": "c20_direct.cpp", "sanitize": "asan", "flags": _FLAGS},
        {"name": "c20_direct2", "src": "c20_direct2.cpp", "sanitize": "asan", "flags": _FLAGS},
        {"name": "c20_seq", "src": "c20_seq.cpp", "sanitize": "asan", "flags": _FLAGS},
        {"name": "c20_fwd", "src": "c20_fwd.cpp", "sanitize": "asan", "flags": _FLAGS},
        {"name": "c20_tree", "src": "c20_tree.cpp", "sanitize": "asan", "flags": _FLAGS},
        {"name": "c20_mtree", "src": "c20_mtree.cpp", "sanitize": "asan", "flags": _FLAGS},
        {"name": "c20_hash", "src": "c20_hash.cpp", "sanitize": "asan", "flags": _FLAGS},
        {"name": "c20_mhash", "src": "c20_mhash.cpp", "sanitize": "asan", "flags": _FLAGS},
    ],
    "rule": ("Container histories (c20_seq/fwd/tree/mtree/hash/mhash): per container kind x element type x MemPoolParams<N, C> one world of 4 container "
             "slots and 2 allocator objects; random calls: default / copy / move construction, construction from an allocator object or another "
             "container's get_allocator(), copy / move / self assignment, swap (member and std::swap), splice / merge / node handles between "
             "containers that share a pool, insert / emplace / erase / clear / resize / assign / rehash / reserve ..., destruction; every call is "
             "made on a std::allocator twin too. Each history is written twice: allocator level (<tag>.trace: every constructor, copy, rebinding "
             "conversion, assignment, destructor, allocate, deallocate of the allocator with the addresses the base allocator answered) and container "
             "level (<tag>.cont). Allocator-level histories (c20_direct*): for EVERY N = 1..32 (C in {0,1,2,16}) allocate / deallocate of singles and "
             "arrays of three out of five value types (4/4, 24/8, 40/8, 16/16, 3/1 bytes/alignment) through allocator objects that share pools by "
             "rebinding, with re-parameterisation of idle pools. A single object is never requested from a pool busy with another type (that is the "
             "F13 pattern); the exact F13 history runs in two dedicated, tagged cases (f13a, f13b). distinct_nontrivial counts histories "
             "(kind x element x N x C x round); evaluations counts container-level calls and allocator-level calls of the direct suites."),
    "runtime_only": [
        "contents of the containers equal to the std::allocator twins after every call, and equal answers of the calls (differential)",
        "ASan + UBSan: the base allocator's arena is poisoned except for blocks it currently lends out, so any access to returned memory aborts",
        "pattern bytes of live blocks intact (allocator-level suites), pointers aligned and inside lent-out memory",
    ],
    "not_modelled": [
        "libstdc++'s containers (environment): which blocks a call allocates / frees is taken from the run; their contents are compared with twins only",
        "MemPool internals are C09's model (used by the driver); the C20 theorems assume its contract 'all buffers returned when allocCount == 0'",
        "failing base allocator (bad_alloc) inside allocate; over-aligned value types (alignment > 16); construct / destroy (ObjectManager) beyond the twin comparison",
        "move assignment / swap with traits other than the extracted ones (POCCA=false, POCMA=true, POCS=true): the model marks them unmodelled",
    ],
}
