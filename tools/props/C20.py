"""Registry entry of property C20 (see tools/registry.py)."""

_FLAGS = ["-O0"]   # the container templates under ASan+UBSan compile 3x faster without the optimiser; run time is negligible

PROP = {
    "id": "C20",
    "level": "proof",
    "technique": ("Lean 4 proof (invariants by induction over all operation histories of an allocator-level and a container-level state "
                  "machine; F13 witness by decide) + correspondence of the real allocator under std containers at two levels"),
    "level_text": ("Kernel-checked theorems over ALL histories (all value-type parameters, counts, addresses, all answers of the pool about its "
                   "buffers, all interleavings of copy / move / swap / splice / assignment between any number of containers and allocator objects): "
                   "with one single-object type per busy pool every deallocate returns the block to the kind of memory it came from, "
                   "GetAllocateCount = live pool blocks, and the unrestricted statement is refuted by the F13 history; a copy gets a pool that did not "
                   "exist and nothing that existed changes; a container's calls touch only its own pool and blocks; move construction / move "
                   "assignment / swap carry pool and blocks along; every live block is held by a container attached to the pool it came from; "
                   "use_count = attached containers and allocator objects; a pool without owners is dead with nothing outstanding at the base "
                   "allocator; freeing an owned block and the final destructor call always succeed. FAILING BASE ALLOCATOR (fault = explicit "
                   "operation of the history, so every placement of bad_alloc is covered): an allocate that throws changes nothing - blocks, "
                   "holders, counts, owner counts, every other pool, control blocks and raw blocks are untouched, nothing is obtained from the base "
                   "allocator - except that an idle pool asked for a single object of another type has already been re-parameterised (line 119) and "
                   "has returned its buffers; all invariants, the provenance theorem, blocks-follow-their-pool and the leak-freedom theorems (pool "
                   "without owners: dead, nothing outstanding; everything destroyed: ledger empty) hold for all histories with faults, including "
                   "container calls that throw half way and copy constructions that throw. DECISION LOGIC for value types of EVERY size and "
                   "alignment (over-aligned included): exact condition for allocate (pool iff n = 1 and (parameters equal or pool idle)) and "
                   "deallocate (MemPool::Deallocate iff n = 1 and parameters equal the pool's CURRENT parameters; an error exactly when that is "
                   "not where the block came from); closed form of pvGetMemPoolParams (alignment min(alignof, maxAlignment); size sizeof, or "
                   "2*alignment when sizeof = alignment and N > 1) and the exact condition under which two value types have equal pool parameters; "
                   "the pool object created by the re-parameterisation passes every MOMO_CHECK of pvCheckParams for every value type. TRAITS: the "
                   "four traits as extracted (POCCA false, POCMA true, POCS true, is_always_equal false) and what the standard prescribes under "
                   "exactly these: copy assignment keeps every pool and touches only the target's, swap and move assignment are defined for "
                   "unequal allocators and need no allocation. SAME NODE TYPE: histories (with faults) whose successful single-object requests all "
                   "have the same pool parameters never serve a single object raw and never record a provenance error, however the containers "
                   "share one allocator object; splice between containers sharing a pool is legal, nodes migrate and their new holder frees them "
                   "into the pool. The model is executable: the real "
                   "unsynchronized_pool_allocator under std::list / forward_list / map / set / multimap / multiset / unordered_* is compared with it "
                   "call by call (pointers, parameters, counts, owner counts, every base-allocator call) on every run, also with a base "
                   "allocator that throws at the k-th request (allocator level for every N = 1..32 with over-aligned value types; container level "
                   "against twins whose std-style allocator throws at the same allocate call)."),
    "level_note": ("Trusted: Lean kernel, the three standard axioms, extractor, correspondence harness. 'Behaves exactly as with std::allocator' "
                   "(contents of libstdc++'s containers) is differential evidence against std::allocator twins, not a theorem. MemPool is C09's: in "
                   "the theorems it is the component 'parameters, count, buffers held, the destructor / re-parameterisation returns every buffer'; "
                   "the driver instantiates it with C09's pool state machine so that the run compares addresses and base-allocator calls exactly. "
                   "The container layer models what [container.requirements.general] prescribes for an allocator-aware container with the "
                   "propagation traits extracted from pool_allocator.h; libstdc++ itself is the environment (which blocks a call allocates / frees "
                   "is an input). Histories that break a C++ precondition (double free, foreign allocator, splice between unequal allocators) "
                   "end with Err.illegal and are outside the statements. Faults: C09's theorem 'MemPool::Allocate that throws leaves the pool "
                   "unchanged and has made no successful request' is the contract used for line 123; the driver re-checks with C09's executable pool "
                   "that a request reported as failed really reaches the base allocator. Trait combinations other than the extracted one cannot "
                   "occur: the three typedefs are fixed by the header, T1 re-reads them (and that there is no second declaration, no "
                   "is_always_equal, one shared_ptr member) on every run, and C20_traits_as_extracted stops building when one of them changes; the "
                   "bodies of allocate / deallocate / pvIsEqual / pvGetMemPoolParams / select_on_container_copy_construction are T1 shapes."),
    "modules": ["Momo.Props.C20"],
    "theorems": [
        "Momo.PoolAlloc.C20_dealloc_provenance",
        "Momo.PoolAlloc.C20_dealloc_provenance_no_raw_single",
        "Momo.PoolAlloc.C20_dealloc_provenance_unrestricted_false",
        "Momo.PoolAlloc.C20_dealloc_provenance_unrestricted_false_containers",
        "Momo.PoolAlloc.C20_dealloc_provenance_containers",
        "Momo.PoolAlloc.C20_owner_free_succeeds",
        "Momo.PoolAlloc.C20_copy_independent_pools",
        "Momo.PoolAlloc.C20_container_touches_only_own_pool",
        "Momo.PoolAlloc.C20_move_construct_carries_pool",
        "Momo.PoolAlloc.C20_move_assign_carries_pool",
        "Momo.PoolAlloc.C20_swap_carries_pool",
        "Momo.PoolAlloc.C20_blocks_follow_their_pool",
        "Momo.PoolAlloc.C20_last_owner_returns_all",
        "Momo.PoolAlloc.C20_all_destroyed_ledger_empty",
        "Momo.PoolAlloc.C20_destructor_drop_succeeds",
        # failing base allocator
        "Momo.PoolAlloc.C20_failed_allocate_changes_nothing",
        "Momo.PoolAlloc.C20_fault_dealloc_provenance",
        "Momo.PoolAlloc.C20_fault_dealloc_provenance_no_raw_single",
        "Momo.PoolAlloc.C20_fault_free_histories",
        "Momo.PoolAlloc.C20_fault_container_alloc_fail",
        "Momo.PoolAlloc.C20_fault_dealloc_provenance_containers",
        "Momo.PoolAlloc.C20_fault_blocks_follow_their_pool",
        "Momo.PoolAlloc.C20_fault_last_owner_returns_all",
        "Momo.PoolAlloc.C20_fault_all_destroyed_ledger_empty",
        "Momo.PoolAlloc.C20_fault_cleanup_succeeds",
        "Momo.PoolAlloc.C20_fault_container_touches_only_own_pool",
        "Momo.PoolAlloc.C20_fault_copy_construct_control_block_fail",
        # decision logic for value types of every size and alignment
        "Momo.PoolAlloc.C20_allocate_route",
        "Momo.PoolAlloc.C20_deallocate_route",
        "Momo.PoolAlloc.C20_pool_params_closed_form",
        "Momo.PoolAlloc.C20_same_pool_parameters_iff",
        "Momo.PoolAlloc.C20_overaligned_value_types",
        "Momo.PoolAlloc.C20_reparameterisation_params_valid",
        # propagation traits as extracted, std-mandated behaviour under exactly these
        "Momo.PoolAlloc.C20_traits_as_extracted",
        "Momo.PoolAlloc.C20_copy_assign_keeps_pools",
        "Momo.PoolAlloc.C20_swap_defined_for_unequal_allocators",
        "Momo.PoolAlloc.C20_move_assign_defined_for_unequal_allocators",
        # allocator objects shared by containers of the same node type
        "Momo.PoolAlloc.C20_same_node_type_sharing",
        "Momo.PoolAlloc.C20_same_node_type_sharing_no_faults",
        "Momo.PoolAlloc.C20_shared_pool_splice_migrates",
    ],
    "harnesses": [
        {"name": "c20_direct", "src": "c20_direct.cpp", "sanitize": "asan", "flags": _FLAGS},
        {"name": "c20_direct2", "src": "c20_direct2.cpp", "sanitize": "asan", "flags": _FLAGS},
        {"name": "c20_seq", "src": "c20_seq.cpp", "sanitize": "asan", "flags": _FLAGS},
        {"name": "c20_fwd", "src": "c20_fwd.cpp", "sanitize": "asan", "flags": _FLAGS},
        {"name": "c20_tree", "src": "c20_tree.cpp", "sanitize": "asan", "flags": _FLAGS},
        {"name": "c20_mtree", "src": "c20_mtree.cpp", "sanitize": "asan", "flags": _FLAGS},
        {"name": "c20_hash", "src": "c20_hash.cpp", "sanitize": "asan", "flags": _FLAGS},
        {"name": "c20_mhash", "src": "c20_mhash.cpp", "sanitize": "asan", "flags": _FLAGS},
        {"name": "c20_fault", "src": "c20_fault.cpp", "sanitize": "asan", "flags": _FLAGS},
        {"name": "c20_fault1b", "src": "c20_fault1b.cpp", "sanitize": "asan", "flags": _FLAGS},
        {"name": "c20_fault2", "src": "c20_fault2.cpp", "sanitize": "asan", "flags": _FLAGS},
        {"name": "c20_fault3", "src": "c20_fault3.cpp", "sanitize": "asan", "flags": _FLAGS},
    ],
    "rule": ("Container histories (c20_seq/fwd/tree/mtree/hash/mhash): per container kind x element type x MemPoolParams<N, C> one world of 4 container "
             "slots and 2 allocator objects; random calls: default / copy / move construction, construction from an allocator object or another "
             "container's get_allocator(), copy / move / self assignment, swap (member and std::swap), splice / merge / node handles between "
             "containers that share a pool, insert / emplace / erase / clear / resize / assign / rehash / reserve ..., destruction; every call is "
             "made on a std::allocator twin too. Each history is written twice: allocator level (<tag>.trace: every constructor, copy, rebinding "
             "conversion, assignment, destructor, allocate, deallocate of the allocator with the addresses the base allocator answered) and container "
             "level (<tag>.cont). Allocator-level histories (c20_direct*): for EVERY N = 1..32 (C in {0,1,2,16}) allocate / deallocate of singles and "
             "arrays of three out of five value types (4/4, 24/8, 40/8, 16/16, 3/1 bytes/alignment) through allocator objects that share pools by "
             "rebinding, with re-parameterisation of idle pools. A single object is never requested from a pool busy with another type (that is the "
             "F13 pattern); the exact F13 history runs in two dedicated, tagged cases (f13a, f13b). distinct_nontrivial counts histories "
             "(kind x element x N x C x round); evaluations counts container-level calls and allocator-level calls of the direct suites. "
             "Fault suites: c20_fault / c20_fault1b = the allocator-level histories again for EVERY N = 1..32 with value types 4/4, 24/8, 40/8, "
             "16/16, 3/1, 24/4 (block size of 24/8, other alignment) and the over-aligned 64/32, 32/32 (same pool parameters as 16/16 when N > 1), 128/64; about every third allocate and "
             "every fifth constructor runs with the base allocator armed to throw bad_alloc at its next request (trace ops allocfail / anewfail; "
             "the model checks with C09's pool that the request reaches the base allocator). c20_fault2 / c20_fault3 = container histories "
             "(list, forward_list, set, map, multimap, unordered_map / set / multiset; pools with 1..5 blocks per buffer) in which 2 of 5 element "
             "calls, 3 of 5 copy constructions, every second copy assignment and every third construction of an allocator object run with the "
             "base allocator armed to throw at its 1st..3rd next request; the twin's std-style allocator throws at the same allocate call of the "
             "same container call; compared: both throw or neither, answers, contents, and the pool's bookkeeping against the model "
             "(cont ops mutateF / copyAssignF / copyConstructF / copyConstructNewFail / newAllocFail). Request 0 of a copy construction is the "
             "control block allocated inside select_on_container_copy_construction: it must surface as a catchable bad_alloc that changes nothing "
             "(regression test of the repaired noexcept, counter fault.inside_select_on_copy_caught; the allocator-level fault suites call "
             "select_on_container_copy_construction directly, armed every second time); a std::terminate is a FAIL (terminate handler)."),
    "runtime_only": [
        "contents of the containers equal to the std::allocator twins after every call, and equal answers of the calls (differential)",
        "ASan + UBSan: the base allocator's arena is poisoned except for blocks it currently lends out, so any access to returned memory aborts",
        "pattern bytes of live blocks intact (allocator-level suites), pointers aligned and inside lent-out memory",
        "std containers under a throwing base allocator: only 'throws iff the twin throws at the same allocate call', answers and contents are compared (the exception guarantees of the container operations are libstdc++'s)",
        "over-aligned value types: a pointer not aligned to min(alignof(T), maxAlignment) is an ordinary FAIL; pointers aligned to that but not for T are the open known finding F29: counted (overaligned.pointer_not_aligned_for_value_type) and reported once per run with the tag known-F29 and the concrete numbers; over-aligned ELEMENT types under std containers are not run (libstdc++'s node accesses would be misaligned: UBSan aborts)",
    ],
    "not_modelled": [
        "libstdc++'s containers (environment): which blocks a call allocates / frees is taken from the run; their contents are compared with twins only",
        "MemPool internals are C09's model (used by the driver); the C20 theorems assume its contract 'all buffers returned when allocCount == 0'",
        "construct / destroy (ObjectManager) beyond the twin comparison; exceptions thrown by element constructors",
        "std::length_error of MemPool::pvCheckParams for blockSize > maxSize / blockCount (value types of > 2^63 / N bytes); allocate(0); overflow of count * sizeof(value_type)",
        "bad_alloc from anything but the base allocator",
        "the address arithmetic that would show WHICH pointers of an over-aligned type are misaligned (the model states the alignment the pool and the memory manager work with: C20_overaligned_value_types)",
        "trait combinations other than the extracted one (POCCA=false, POCMA=true, POCS=true, is_always_equal=false) are kept out on purpose: the typedefs are fixed by the header, re-extracted on every run together with 'no second declaration', and C20_traits_as_extracted fails to build when they change; the cstep branches for other values are dead code under that theorem",
    ],
}
