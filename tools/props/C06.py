"""Registry entry of property C06 (stdish containers give the same answers as the std containers they replace)."""

def _h(name, src, flags, **kw):
    d = {"name": name, "src": src, "flags": flags}
    d.update(kw)
    return d

# -O0 -g0: the harnesses are template-heavy (8 wrappers x allocator types x libstdc++ twins); run time is negligible
FAST = ["-O0", "-g0"]

PROP = {
    "id": "C06",
    "level": "proof",
    "technique": ("Lean 4 proof of the wrapper decision logic (range-erase case analysis over iterator kinds, hint rule by lower/upper-bound "
                  "lemmas on sorted lists, multiset equality by counting) + differential state-machine correspondence against libstdc++"),
    "level_text": ("PARTIAL. Kernel-checked for all inputs: (1) unordered erase(first,last) — for every container size / key layout and every pair "
                   "of iterators, traversal iterators and lookup results alike, a call that does not throw removes exactly the elements the "
                   "iterators enumerate from first to last, and the documented legal ranges (empty, single element incl. erase(it,next(it)) on a "
                   "lookup result, whole key, whole container) are accepted; (2) hinted insertion of set/multiset/map/multimap — for every sorted "
                   "sequence, hint and key the element lands at the valid position closest to the hint (at the hint when it is valid), order of "
                   "equivalent keys untouched; with unique keys flag/position/contents do not depend on the hint; (3) unordered_multimap == is "
                   "true iff the stored pairs are equal as multisets (value-less keys ignored); (4) at / try_emplace / insert_or_assign flags "
                   "and effects of map and unordered_map. NOT proved (differential evidence only, because libstdc++ has no formal model): "
                   "agreement of whole call histories with the libstdc++ containers — checked on every run by driving momo::stdish::X and std::X "
                   "with the same random call sequences (all shared operations, 8 wrappers, bucketed and open-addressing variants, six hash "
                   "families, five key distributions, std::allocator and stateful allocators with all 8 propagation-trait combinations) and "
                   "comparing every return value and the full contents; the Lean model replays the wrapper decisions on the same sequences."),
    "level_note": ("Trusted: Lean kernel + 3 standard axioms, harness (g++ 12, libstdc++ as the reference), line protocol. The native containers "
                   "behind the wrappers are represented by their abstract specification in the theorems (sorted list / association list / key->"
                   "value-array table); their own correctness is C01, C02, C08. Documented deviations are outside the claim and encoded in the "
                   "generator: no traversal from lookup/insert results (except inside one key of unordered_multimap, which equal_range needs), all "
                   "iterators re-acquired after every mutation, only pair-like reads through proxy references."),
    "modules": ["Momo.Props.C06"],
    "theorems": [
        "Momo.StdWrap.C06_eraseRange_exact_set",
        "Momo.StdWrap.C06_eraseRange_legal_set",
        "Momo.StdWrap.C06_eraseRange_exact_multimap",
        "Momo.StdWrap.C06_eraseRange_legal_multimap",
        "Momo.StdWrap.C06_mm_eq_iff",
        "Momo.StdWrap.C06_uset_eq_iff",
        "Momo.StdWrap.C06_hint_closest",
        "Momo.StdWrap.C06_insert_equal_stable",
        "Momo.StdWrap.C06_hint_unique",
        "Momo.StdWrap.C06_node_handle",
        "Momo.StdWrap.C06_equal_range",
        "Momo.StdWrap.C06_map_at",
        "Momo.StdWrap.C06_map_insert_or_assign",
        "Momo.StdWrap.C06_umap_try_emplace",
        "Momo.StdWrap.C06_umap_insert_or_assign",
    ],
    "harnesses": [
        _h("c06_ord", "c06_ordered.cpp", FAST + ["-DVF_ALLOC=0"]),
        _h("c06_ord_sa000", "c06_ordered.cpp", FAST + ["-DVF_ALLOC=1"]),
        _h("c06_ord_sa111", "c06_ordered.cpp", FAST + ["-DVF_ALLOC=2"]),
        _h("c06_uno", "c06_unordered.cpp", FAST + ["-DVF_OPEN=0", "-DVF_ALLOC=0"]),
        _h("c06_uno_open", "c06_unordered.cpp", FAST + ["-DVF_OPEN=1", "-DVF_ALLOC=0"]),
        _h("c06_uno_sa000", "c06_unordered.cpp", FAST + ["-DVF_OPEN=0", "-DVF_ALLOC=1"]),
        _h("c06_uno_open_sa111", "c06_unordered.cpp", FAST + ["-DVF_OPEN=1", "-DVF_ALLOC=2"]),
        _h("c06_alloc_vec_set", "c06_alloc.cpp", FAST + ["-DVF_KINDS=3"]),
        _h("c06_alloc_mset_map", "c06_alloc.cpp", FAST + ["-DVF_KINDS=12"]),
        _h("c06_alloc_mmap_uset", "c06_alloc.cpp", FAST + ["-DVF_KINDS=48"]),
        _h("c06_alloc_umap_ummap", "c06_alloc.cpp", FAST + ["-DVF_KINDS=192"]),
    ],
    "rule": ("Differential runs: two containers + one node handle per side, 350-450 calls per run (thorough 700-900), drawn from insert / emplace / "
             "hinted insert and emplace (hints at lower/upper bound, their neighbours, begin, end, random) / try_emplace / insert_or_assign / "
             "operator[] / at / find / count / contains / lower_bound / upper_bound / equal_range / erase(key) / erase(iterator) / erase(first,last) / "
             "extract(key|iterator) / insert(node) / insert(hint,node) / merge / swap / copy- and move-assignment / == != < <= > >= / erase_if / "
             "clear; keys from {uniform, ascending, descending, clusters, multiples} over ranges 5..5000, sizes steered to 0..700 elements (B-tree "
             "nodes hold 32); unordered: hash family from {constant, low 4 bits, high byte, identity, multiplicative, two clusters}, range-erase "
             "shapes {empty, single, single via lookup result, whole container, lookup-begin..end, several, random, lookup..end, backwards, whole "
             "key by traversal, whole key by equal_range, four kinds of partial key}; the oracle of a range erase is the enumeration of the real "
             "iterators before the call, refused ranges must leave the container unchanged. After every call the answer is compared with "
             "libstdc++'s answer and with the model's, contents are compared (every call while small, every 8-16 calls when large). Allocator "
             "matrix: 8 wrappers x 8 trait combinations x copy/move construction (with/without allocator) / copy/move assignment / swap, contents "
             "and allocator identity against libstdc++, ledger of every block. distinct_nontrivial = number of distinct (suite, run, key "
             "distribution, range, hash family) runs plus allocator-matrix rounds."),
    "runtime_only": ["ledger of the stateful allocator: every block returned through an equal allocator with its size, none left (C03/C14 piggyback)",
                     "agreement with libstdc++ on whole histories (differential, not a theorem)",
                     "F15 pattern executed in a forked child; its crash is reported as KNOWN-FINDING only for exactly that pattern"],
    "not_modelled": ["the native containers (HashSet/HashMap/HashMultiMap, TreeSet/TreeMap, Array) — abstract specification in the model; see C01, C02, C05, C08",
                     "iterator invalidation, proxy reference types, bucket interface, max_load_factor/rehash/reserve, constructors from ranges "
                     "(exercised only through the allocator matrix), heterogeneous lookup (IsValidKeyArg), C++20 ranges / three-way comparison "
                     "(harness is compiled as C++17)",
                     "libstdc++ itself (reference of the differential run)"],
}
