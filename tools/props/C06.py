"""Registry entry of property C06 (stdish containers give the same answers as the std containers they replace)."""

def _h(name, src, flags, **kw):
    d = {"name": name, "src": src, "flags": flags}
    d.update(kw)
    return d

# -O0 -g0: the harnesses are template-heavy (8 wrappers x allocator types x libstdc++ twins); run time is negligible
FAST = ["-O0", "-g0"]

PROP = {
    "id": "C06",
    "level": "proof",
    "technique": ("Lean 4 proof of the wrapper decision logic (range-erase case analysis over iterator kinds, hint rule by lower/upper-bound "
                  "lemmas on sorted lists, multiset equality by counting); whole-history REFINEMENT proof: the wrapper model (every stdish operation as written, "
                  "over the native containers' contracts) against a hand-written formal specification of the std containers, by an abstraction relation "
                  "preserved by every call and induction over call lists; + differential state-machine correspondence against libstdc++ "
                  "(momo vs libstdc++, wrapper model vs momo, specification vs libstdc++)"),
    "level_text": ("PARTIAL. Kernel-checked for all inputs: "
                   "(A) WHOLE CALL HISTORIES, inside the model: lean/Momo/Model/StdSpec.lean is a formal specification of std::set / multiset / map / "
                   "multimap (sorted sequence, stable for equivalent keys, hinted insertion as close as possible to the hint), std::vector (list) and "
                   "std::unordered_set / unordered_map / unordered_multimap (finite (multi)map, every observation independent of the iteration order) "
                   "written from the C++ standard; "
                   "lean/Momo/Model/StdWrapOps.lean models every operation of the corresponding momo::stdish wrappers as written in the headers over the "
                   "native containers' contracts (TreeSet/TreeMap = sorted list of C02, Array = list of C05, HashSet/HashMap = finite map of C01 and "
                   "HashMultiMap = key -> value array with possibly value-less keys of C08, both in an ARBITRARY traversal order that an oracle "
                   "re-arranges after every call). C06_history_ordered / C06_history_vector / C06_history_unordered_unique / "
                   "C06_history_unordered_multimap (all eight container kinds): for every legal call list (legal = the documented preconditions as a decidable predicate: iterator "
                   "arguments denote current positions / present elements, first not behind last, unordered range erase limited to the documented "
                   "empty / single-element / whole-key / whole-container ranges) the wrapper model and the specification give the same observations call by call - "
                   "inserted flags, positions incl. hinted insertion and stable order of equivalent keys, counts, bounds, equal_range, positions returned "
                   "by erase, node-handle contents (plain and hinted, refused or accepted), out_of_range from at(), try_emplace / insert_or_assign / "
                   "operator[], merge, swap, copy / move assignment and construction, construction from a range / initializer list, reverse traversal "
                   "(rbegin / crbegin), vector reserve / shrink_to_fit, unordered reserve / rehash / max_load_factor(z) (the wrapper rebuilds the table by "
                   "re-inserting every element: proved to give the same table), == != < <= > >=, full traversals (hence the same contents). One abstract call stands for "
                   "all its C++ spellings (insert(const value_type&) / (value_type&&) / (P&&), emplace with arguments / a pair / std::piecewise_construct, "
                   "const key_type& / key_type&& overloads, erase(iterator) / erase(const_iterator), const / non-const lookups); c06_hist picks the spelling at random; "
                   "C06_history_vs_spec restates C06_full with the specification in the place of the std container. "
                   "(B) the isolated decision-logic theorems: unordered erase(first,last) removes exactly what the iterators enumerate (all three unordered "
                   "wrappers, every pair of traversal / lookup iterators), hint_closest, hint_unique, node handles, equal_range, at / try_emplace / "
                   "insert_or_assign, == of unordered_multimap (multiset of pairs, value-less keys ignored) and of unordered_set/map. "
                   "STILL DIFFERENTIAL (T2, not a theorem, because libstdc++ has no formal model): (1) 'libstdc++ implements StdSpec' - on every run "
                   "harness/c06_hist.cpp drives libstdc++ with random legal histories over the whole call alphabet and the specification must give the "
                   "same answers line by line (suites hist_*_spec); (2) 'momo::stdish is what StdWrapOps says' - the same histories on momo against the "
                   "wrapper model (suites hist_*_wrap); (3) momo against libstdc++ directly (c06_ordered / c06_unordered / c06_alloc / c06_hist). "
                   "LEFT OUT of the history theorems (hence PARTIAL): allocator propagation and unequal allocators (histories run with equal allocators; "
                   "differential only, c06_alloc); the bucket interface proper (bucket / bucket_size / bucket_count / local iterators / load_factor values), capacity values, "
                   "max_size, key_comp / value_comp / hash_function / key_eq, heterogeneous lookup, deduction guides, self-assignment / self-merge are not calls of the model: "
                   "they are checked at property level only (c06_api: differential against libstdc++ and against the invariants [unord.req] states: rehash(n) => "
                   "bucket_count() >= n and >= size() / max_load_factor(), reserve(n) => no rehash while size() <= n, sum of bucket_size = size(), every element in "
                   "bucket(key), local iterators enumerate exactly the elements, load_factor() = size() / bucket_count() and <= max_load_factor() after an insertion); "
                   "C++20 ranges / three-way comparison are not compiled (C++17). One line of the "
                   "specification follows libstdc++ rather than the standard's wording: unordered insert(hint, node) destroys a refused node "
                   "(libstdc++ implements it as _M_reinsert_node(std::move(nh)).position, momo does the same)."),
    "level_note": ("Trusted: Lean kernel + 3 standard axioms, harness (g++ 12, libstdc++ as the reference), line protocol. The native containers "
                   "behind the wrappers are represented by their abstract specification in the theorems (sorted list / association list / key->"
                   "value-array table); their own correctness is C01, C02, C08. Documented deviations are outside the claim and encoded in the "
                   "generator: no traversal from lookup/insert results (except inside one key of unordered_multimap, which equal_range needs), all "
                   "iterators re-acquired after every mutation, only pair-like reads through proxy references."),
    "modules": ["Momo.Props.C06"],
    "theorems": [
        "Momo.StdWrap.C06_eraseRange_exact_set",
        "Momo.StdWrap.C06_eraseRange_legal_set",
        "Momo.StdWrap.C06_eraseRange_exact_multimap",
        "Momo.StdWrap.C06_eraseRange_legal_multimap",
        "Momo.StdWrap.C06_mm_eq_iff",
        "Momo.StdWrap.C06_uset_eq_iff",
        "Momo.StdWrap.C06_hint_closest",
        "Momo.StdWrap.C06_insert_equal_stable",
        "Momo.StdWrap.C06_hint_unique",
        "Momo.StdWrap.C06_node_handle",
        "Momo.StdWrap.C06_equal_range",
        "Momo.StdWrap.C06_map_at",
        "Momo.StdWrap.C06_map_insert_or_assign",
        "Momo.StdWrap.C06_umap_try_emplace",
        "Momo.StdWrap.C06_umap_insert_or_assign",
        "Momo.StdW.C06_history_ordered",
        "Momo.StdW.C06_step_ordered",
        "Momo.StdW.C06_history_vector",
        "Momo.StdW.C06_history_unordered_unique",
        "Momo.StdW.C06_history_unordered_multimap",
        "Momo.StdW.C06_history_vs_spec",
        "Momo.StdW.C06_native_contract_is_C02_reference",
    ],
    "harnesses": [
        _h("c06_ord", "c06_ordered.cpp", FAST + ["-DVF_ALLOC=0"]),
        _h("c06_ord_sa000", "c06_ordered.cpp", FAST + ["-DVF_ALLOC=1"]),
        _h("c06_ord_sa111", "c06_ordered.cpp", FAST + ["-DVF_ALLOC=2"]),
        _h("c06_uno", "c06_unordered.cpp", FAST + ["-DVF_OPEN=0", "-DVF_ALLOC=0"]),
        _h("c06_uno_open", "c06_unordered.cpp", FAST + ["-DVF_OPEN=1", "-DVF_ALLOC=0"]),
        _h("c06_uno_sa000", "c06_unordered.cpp", FAST + ["-DVF_OPEN=0", "-DVF_ALLOC=1"]),
        _h("c06_uno_open_sa111", "c06_unordered.cpp", FAST + ["-DVF_OPEN=1", "-DVF_ALLOC=2"]),
        _h("c06_alloc_vec_set", "c06_alloc.cpp", FAST + ["-DVF_KINDS=3"]),
        _h("c06_alloc_mset_map", "c06_alloc.cpp", FAST + ["-DVF_KINDS=12"]),
        _h("c06_alloc_mmap_uset", "c06_alloc.cpp", FAST + ["-DVF_KINDS=48"]),
        _h("c06_alloc_umap_ummap", "c06_alloc.cpp", FAST + ["-DVF_KINDS=192"]),
        _h("c06_hist_ord_vec", "c06_hist.cpp", FAST + ["-DVF_PART=1"]),
        _h("c06_hist_uno", "c06_hist.cpp", FAST + ["-DVF_PART=2", "-DVF_OPEN=0"]),
        _h("c06_hist_uno_open", "c06_hist.cpp", FAST + ["-DVF_PART=2", "-DVF_OPEN=1"]),
        # interface completeness (property level only, no model suite): every overload / observer / constructor form of the shared interface
        _h("c06_api_ord", "c06_api.cpp", FAST + ["-DVF_PART=1"], sanitize="asan"),
        _h("c06_api_uno", "c06_api.cpp", FAST + ["-DVF_PART=2", "-DVF_OPEN=0"], sanitize="asan"),
        _h("c06_api_uno_open", "c06_api.cpp", FAST + ["-DVF_PART=2", "-DVF_OPEN=1"], sanitize="asan"),
        _h("c06_api_vec", "c06_api.cpp", FAST + ["-DVF_PART=3"], sanitize="asan"),
    ],
    "rule": ("Differential runs: two containers + one node handle per side, 350-450 calls per run (thorough 700-900), drawn from insert / emplace / "
             "hinted insert and emplace (hints at lower/upper bound, their neighbours, begin, end, random) / try_emplace / insert_or_assign / "
             "operator[] / at / find / count / contains / lower_bound / upper_bound / equal_range / erase(key) / erase(iterator) / erase(first,last) / "
             "extract(key|iterator) / insert(node) / insert(hint,node) / merge / swap / copy- and move-assignment / == != < <= > >= / erase_if / "
             "clear; keys from {uniform, ascending, descending, clusters, multiples} over ranges 5..5000, sizes steered to 0..700 elements (B-tree "
             "nodes hold 32); unordered: hash family from {constant, low 4 bits, high byte, identity, multiplicative, two clusters}, range-erase "
             "shapes {empty, single, single via lookup result, whole container, lookup-begin..end, several, random, lookup..end, backwards, whole "
             "key by traversal, whole key by equal_range, four kinds of partial key}; the oracle of a range erase is the enumeration of the real "
             "iterators before the call, refused ranges must leave the container unchanged. After every call the answer is compared with "
             "libstdc++'s answer and with the model's, contents are compared (every call while small, every 8-16 calls when large). Allocator "
             "matrix: 8 wrappers x 8 trait combinations x copy/move construction (with/without allocator) / copy/move assignment / swap, contents "
             "and allocator identity against libstdc++, ledger of every block. c06_hist (history theorem tie): 10-12 runs (thorough 40-48) of 260 "
             "(500) random LEGAL calls per container kind (set, multiset, map, multimap, vector, unordered_set, unordered_map, unordered_multimap, "
             "the last three also as _open variants) over the complete call alphabet of StdSpec.lean - every call in a randomly chosen C++ spelling (lvalue / rvalue / convertible-pair "
             "insert, emplace with constructor arguments / a pair / std::piecewise_construct with a key of another type (key built in a buffer), key_type&& overloads, "
             "erase(iterator) vs erase(const_iterator), const vs non-const lookups, vector ranges through random-access / forward / single-pass input iterators, data()) - "
             "incl. construction from a range / initializer list in every constructor form, rbegin / crbegin traversals, reserve / rehash / max_load_factor / shrink_to_fit, "
             "range / initializer-list insert and assignment, hinted and "
             "plain node-handle insertion (nodes usually extracted from the other container), erase_if, merge in both directions, copy / move "
             "construction, size / empty, unordered erase(first,last) in the shapes empty / single by traversal / single through a lookup result / "
             "whole key by traversal / whole key by equal_range / whole, a == b after erase_if on one side and erase(key) on the other - every call line is written twice: with momo's answer for the wrapper model and with libstdc++'s answer for the specification; "
             "momo and libstdc++ are also compared directly. c06_api (property level, ASan+UBSan, counted elements CKey / CVal, propagating stateful allocator, stateful transparent "
             "comparator / hash / equality): 30 runs (thorough 160) of 400 (600) calls per kind over all insert / emplace / emplace_hint spellings incl. argument-less and piecewise, "
             "try_emplace / insert_or_assign / operator[] with key_type&& (moved-from flags compared with libstdc++), at() const, heterogeneous lookups with int and with a key "
             "equivalent to several elements (Decade), const and non-const lookups, erase(iterator) vs erase(const_iterator), observers, reverse / const traversals, six relational "
             "operators, free swap / erase_if, node handle operator bool / key() / mapped() writes, all constructor forms (with and without comparator / hash / equality / bucket "
             "count / allocator, from random-access / input-by-reference / input-by-value / pair<Key, Mapped> iterators and initializer lists), initializer-list insert / assignment, "
             "deduction guides, piecewise emplace whose mapped constructor throws and emplace under an allocation fault of the stateful allocator (the key-buffer "
             "roll-back paths of map_base::pvInsert / unordered_map::pvInsert / unordered_multimap::pvInsert: nothing leaks, nothing is destroyed twice, the container is "
             "unchanged); unordered: max_load_factor(z) incl. refused values, rehash, reserve + fill, the bucket interface against the invariants of [unord.req]; vector: "
             "data, assign / insert / construct from four iterator categories, emplace(pos, args), self-referencing arguments, reserve (no reallocation below the capacity), "
             "shrink_to_fit, resize, front / back / at const. distinct_nontrivial = number of distinct (suite, run, key "
             "distribution, range, hash family) runs plus allocator-matrix rounds."),
    "runtime_only": ["ledger of the stateful allocator: every block returned through an equal allocator with its size, none left (C03/C14 piggyback)",
                     "agreement of libstdc++ with the specification StdSpec.lean on whole histories (differential: suites hist_*_spec), and of momo with libstdc++ "
                     "directly; inside the model the wrapper refines the specification by theorem (C06_history_*)",
                     "F15 pattern executed in a forked child; its crash is reported as KNOWN-FINDING only for exactly that pattern"],
    "not_modelled": ["the native containers (HashSet/HashMap/HashMultiMap, TreeSet/TreeMap, Array) — abstract specification in the model; see C01, C02, C05, C08",
                     "in the history theorems: allocators (equal allocators assumed), bucket / bucket_size / bucket_count / local iterators / load_factor values, "
                     "capacity values, observers (key_comp, hash_function, ...), heterogeneous lookup, self-assignment - property level only (c06_api)",
                     "iterator invalidation, proxy reference types, heterogeneous lookup (IsValidKeyArg), C++20 ranges / three-way comparison "
                     "(harness is compiled as C++17)",
                     "libstdc++ itself (reference of the differential run)"],
}
