"""Registry entry of property C15 (see tools/registry.py)."""

# one source, nine executables (-DVF_PART=k): the exception-mode settings classes are defined in the harness itself
# (checkMode = CheckMode::exception, extraCheckMode = nothing, checkVersion / checkKeyVersion / checkValueVersion = true)
_PARTS = [
    (0, "hashset"),
    (1, "hashmap"),
    (2, "treeset"),
    (6, "treemulti_treemap"),
    (3, "multimap"),
    (4, "arrays"),
    (5, "table_static"),
    (7, "table_dynamic"),
    (8, "tree_noversion"),
]

PROP = {
    "id": "C15",
    "level": "proof",
    "technique": ("Lean 4 proof (version-counter model: case analysis over the complete entry-point lists of five container families, "
                  "induction over operation histories, residues modulo 2^64) + state-machine correspondence on the real containers built with "
                  "exception-mode, version-checking settings, under ASan+UBSan"),
    "level_text": ("Kernel-checked theorems about an executable model that mirrors, entry point by entry point, every version increment and every "
                   "MOMO_CHECK of HashSet/HashMap, TreeSet/TreeMap, HashMultiMap (key version + value version), DataTable (change version + remove "
                   "version: row references, selections, row pointers, hash bounds) and the index checks of Array / SegmentedArray and their index "
                   "iterators. For every world of two objects with distinct version cells, every handle value and every argument: (1) bump_on_mutation - "
                   "every entry point of the complete lists (HOp 24, TOp 24, MOp 25, BOp 23 constructors; merge fast paths, MergeTo into an empty destination, range "
                   "removal, Assign included) never decreases a counter and strictly increases the counter a handle snapshots whenever keys / capacity / "
                   "root / key set / values / rows changed or a row is gone; (2) stale_rejected - a use (read, advance, CheckIterator, Add, Add(extracted), "
                   "Remove, extracting Remove, range Remove, ResetKey, MakeMutable..., Selection::Set/Add/Insert, Sort/Group/bounds, bounds indexing) of a "
                   "handle whose cell moved by 1..2^64-1 answers invalid_argument and returns the world unchanged; likewise a handle of the other "
                   "container, an end / empty / default-constructed handle where an element is required, an out-of-range index or count (decision "
                   "tables, natural-number arguments, no size_t wrap-around); (3) fresh_accepted - a handle that snapshots the current version is rejected "
                   "only by the listed argument checks, and entry points that changed nothing (Insert of a stored key, Find, Reserve below capacity, "
                   "refused TryAdd, calls that threw, calls on the other object, ...) increment nothing; (4) history theorems for each of the four "
                   "versioned families: a handle made in any world is rejected after ANY history in which some call changed its container and accepted "
                   "after any history of calls that did not. The only numeric hypothesis is fewer than 2^64 increments between making and using a handle; "
                   "C15_wrap_is_the_only_gap shows it is necessary. The numbers of IncVersion / ++version / Check / rowRef.GetRaw() sites in the headers "
                   "are re-extracted on every run and proved equal to the sites the model mirrors. The model is compared with the real containers line "
                   "by line (outcome and complete contents of both objects after every call) on every run."),
    "level_note": ("Theorems are about the model Momo.Ver; its tie to the C++ is T1 (site counts, shape of VersionKeeper::Check, MOMO_CHECK throwing "
                   "std::invalid_argument) plus the T2 run. Trusted: Lean kernel, the three standard axioms, extractor, harness (g++ -fno-access-control, "
                   "ASan+UBSan). In the model a rejected call cannot change anything by construction (Option-valued functions); that the C++ checks "
                   "precede the first write (and that DataTable range Remove / Assign restore their marks) is observed by the harness, which compares "
                   "complete snapshots after every throwing call. Multimap: two hypotheses are stated in the theorems - the capacity reported after an "
                   "insertion is positive and a nested map without buckets holds no key. ResetKey replaces a key in place without a version change "
                   "(as in the source) and is excluded from bump_on_mutation. Array index iterators carry no version: only the range / same-array "
                   "checks are claimed for them."),
    "modules": ["Momo.Props.C15", "Momo.Props.C15Table"],
    "theorems": [
        "Momo.Ver.C15_stale_keeper_fails",
        "Momo.Ver.C15_fresh_keeper_passes",
        "Momo.Ver.C15_foreign_keeper_fails",
        "Momo.Ver.C15_null_keeper",
        "Momo.Ver.C15_wrap_is_the_only_gap",
        "Momo.Ver.C15_hash_bump_on_mutation",
        "Momo.Ver.C15_hash_rejection_table",
        "Momo.Ver.C15_hash_rejected_unchanged",
        "Momo.Ver.C15_hash_stale_rejected",
        "Momo.Ver.C15_hash_foreign_rejected",
        "Momo.Ver.C15_hash_end_rejected",
        "Momo.Ver.C15_hash_wrong_position_rejected",
        "Momo.Ver.C15_hash_fresh_accepted",
        "Momo.Ver.C15_hash_no_increment_without_change",
        "Momo.Ver.C15_hash_history_stale",
        "Momo.Ver.C15_hash_history_fresh",
        "Momo.Ver.C15_tree_bump_on_mutation",
        "Momo.Ver.C15_tree_rejection_table",
        "Momo.Ver.C15_tree_rejected_unchanged",
        "Momo.Ver.C15_tree_stale_rejected",
        "Momo.Ver.C15_tree_foreign_rejected",
        "Momo.Ver.C15_tree_end_rejected",
        "Momo.Ver.C15_tree_end_read_rejected",
        "Momo.Ver.C15_tree_null_rejected",
        "Momo.Ver.C15_tree_fresh_accepted",
        "Momo.Ver.C15_tree_no_increment_without_change",
        "Momo.Ver.C15_tree_history_stale",
        "Momo.Ver.C15_tree_history_fresh",
        "Momo.Ver.C15_multimap_bump_on_mutation",
        "Momo.Ver.C15_multimap_key_iterator_stale",
        "Momo.Ver.C15_multimap_value_iterator_stale",
        "Momo.Ver.C15_multimap_key_stale_rejected",
        "Momo.Ver.C15_multimap_value_stale_rejected",
        "Momo.Ver.C15_multimap_end_rejected",
        "Momo.Ver.C15_multimap_key_empty_rejected",
        "Momo.Ver.C15_multimap_value_fresh_accepted",
        "Momo.Ver.C15_multimap_key_fresh_accepted",
        "Momo.Ver.C15_multimap_rejected_unchanged",
        "Momo.Ver.C15_multimap_key_foreign_rejected",
        "Momo.Ver.C15_multimap_value_foreign_rejected",
        "Momo.Ver.C15_multimap_world_stale_rejected",
        "Momo.Ver.C15_multimap_world_bump_on_mutation",
        "Momo.Ver.C15_multimap_history_key_stale",
        "Momo.Ver.C15_multimap_history_value_stale",
        "Momo.Ver.C15_multimap_no_increment_without_change",
        "Momo.Ver.C15_multimap_history_key_fresh",
        "Momo.Ver.C15_multimap_history_value_fresh",
        "Momo.Ver.C15_table_bump_on_mutation",
        "Momo.Ver.C15_table_handles_stale",
        "Momo.Ver.C15_table_ref_stale_rejected",
        "Momo.Ver.C15_table_ref_foreign_rejected",
        "Momo.Ver.C15_table_selection_stale_rejected",
        "Momo.Ver.C15_table_selection_store_stale_rejected",
        "Momo.Ver.C15_table_bounds_stale_rejected",
        "Momo.Ver.C15_table_fresh_accepted",
        "Momo.Ver.C15_table_add_keeps_references",
        "Momo.Ver.C15_table_index_table",
        "Momo.Ver.C15_table_rejected_unchanged",
        "Momo.Ver.C15_table_world_stale_rejected",
        "Momo.Ver.C15_table_world_foreign_rejected",
        "Momo.Ver.C15_table_selection_foreign_store_rejected",
        "Momo.Ver.C15_table_world_selection_bounds_stale",
        "Momo.Ver.C15_table_index_rejected",
        "Momo.Ver.C15_table_world_bump_on_mutation",
        "Momo.Ver.C15_table_history_ref_stale",
        "Momo.Ver.C15_table_history_selection_stale",
        "Momo.Ver.C15_table_history_bounds_stale",
        "Momo.Ver.C15_table_no_increment_without_reason",
        "Momo.Ver.C15_table_history_ref_fresh",
        "Momo.Ver.C15_table_history_selection_fresh",
        "Momo.Ver.C15_table_history_bounds_fresh",
        "Momo.Ver.C15_table_update_foreign_row_rejected",
        "Momo.Ver.C15_table_update_own_row",
        "Momo.Ver.C15_tableX_rejected_unchanged",
        "Momo.Ver.C15_tableX_iter_world",
        "Momo.Ver.C15_bounds_iter_eq_index",
        "Momo.Ver.C15_bounds_advance_table",
        "Momo.Ver.C15_bounds_advance_rejected",
        "Momo.Ver.C15_bounds_advance_accepted",
        "Momo.Ver.C15_bounds_iter_history",
        "Momo.Ver.C15_array_index_table",
        "Momo.Ver.C15_array_iterator_table",
        "Momo.Ver.C15_array_nogrow_table",
        "Momo.Ver.C15_sites_accounted",
    ],
    "harnesses": [
        {"name": "c15_checks_%s" % n, "src": "c15_checks.cpp", "sanitize": "asan", "flags": ["-DVF_PART=%d" % k],
         "timeout_quick": 600, "timeout_thorough": 3000}
        for (k, n) in _PARTS
    ],
    "rule": ("19 container configurations in 9 executables, all with CheckMode::exception; version checks on except in the 4 configurations of the "
             "ninth executable (TreeSet default node / TreeNode<4,2>, TreeMultiSet<TreeNode<4,1>>, TreeMap<TreeNode<6,3>> with checkVersion = "
             "false, where the null-node checks TreeSet.h:60/80/105/141 are the only guard: 7 tree states x 8 handle kinds (default-constructed "
             "iterator, begin, end, Find, bounds, returned by Insert, advanced) x 19 uses (->, *, ++, --, CheckIterator(true / false), Add, "
             "Add(extracted) full / empty, Remove, Remove(extracted) empty / full holder, Extract, ResetKey, six Remove(range) forms incl. a "
             "default-constructed begin or end) + 50 (thorough 300) random histories; only the default-constructed iterator and iterators made "
             "after the last modifying call of their own tree are used - anything else is undefined without version checks - and for these the "
             "model `ver` answers identically, so the same operation lines are compared). The other 15: HashSet (default bucket, Open8, "
             "LimP4<2> with slow hash), HashMap (default, OpenN1), TreeSet (default node, TreeNode<4,2>), TreeMultiSet<TreeNode<4,1>>, "
             "TreeMap<TreeNode<6,3>>, HashMultiMap (default, Open8), Array (heap / internal capacity 4) with SegmentedArray (sqrt,1 / cnst,2), DataTable "
             "(static columns with row numbers, dynamic columns without; unique hash index on a, multi hash index on b). Two objects A and B per "
             "scenario. Enumeration of all (state, handle kind, invalidating or non-invalidating entry point, subsequent use) tuples: hash 5 states x 8 "
             "handle kinds x 34 entry points x 18 uses, tree 7 x 8 x 36 x 20 (MergeTo by every path for source and destination incl. an empty destination, "
             "Remove(begin,end), ++/-- at both ends), multimap 5 x 9 x 26 x 17/9 (key iterators and value iterators; InsertKey moves only the key "
             "version), table 3 x 11 x 24 x 17/12/3 (references from operator[] / insertion / refused insertion / selection / row pointer / hash "
             "bounds; TryAdd, TryInsert, TryUpdate(row) and (column), Remove / Extract by reference and number, Clear, Remove(filter) with and "
             "without effect, Remove(begin,end) and Assign(begin,end) over reference vectors and over selection iterators, Reserve; since the repairs F31 / F32 "
             "also TryUpdate / Update(row number, detached row of the other table) as a 25th entry point that must be refused without effect, and for hash "
             "bounds the iterator uses GetBegin() += i for i = 0, count, count + 1 and *(GetBegin() + i) for i = 0, count - 1, count - model lines "
             "updrowof / mbadv / mbit of Model/VerTableX.lean; a misuse whose omission would corrupt memory is tried in a forked child first), plus a "
             "directed block per table state and after every fourth random history (property level, no model lines; ~90 uses that are wrong or right "
             "whatever happened before): constTable[count], TryAdd / Add / TryInsert / Insert / TryUpdate / Update / FindByUniqueHash with a detached row "
             "of the other table, FindByUniqueHash(empty index, row), an index over a mutable column or over one column twice, Select / SelectCount with "
             "one column twice, GetMutable of an immutable column, and every += / - / < / * / -> / [] check of the iterators of row pointers "
             "(FindByUniqueHash: no row / one row), row bounds (FindByMultiHash: no row, one row = key without value array, several rows), selections, "
             "the table, a default-constructed row iterator and column item bounds, across handles of the same and of the other table, range Add / "
             "Assign / Insert of a selection with rows of the other table (incl. two own rows first: the rollback) - each with its accepted counterpart), arrays: every "
             "index / count around the size plus SIZE_MAX-2..SIZE_MAX, 2^63, 2^32 for operator[], Insert, Remove(index,count), RemoveBack, "
             "GetBackItem (each also through a const reference), AddBackNogrow / AddBackNogrowVar / AddBackNogrowCrt item by item up to the "
             "capacity and twice beyond (after construction, Reserve, RemoveBack, Clear; capacity read from the real object and written on the "
             "operation line), iterator += over [-n-2, n+2] and extreme differences, - and < across arrays, null iterators. Directed blocks at "
             "property level (no model lines): extracted-item holders of HashSet / HashMap / TreeSet / TreeMap in every state (default, filled by "
             "Create / Extract, cleared, moved-from, emptied by Remove / Insert) x every accessor const and non-const, Create on a full and Remove "
             "on an empty holder (functor must not run); hash traits that answer bucket-count shift 0 or a new capacity <= count from a run-time "
             "switch on (HashSet default / Open8, HashMap default / LimP4<2>; 5 table states incl. no buckets, full after 1 / 2 growths, after "
             "Reserve, after removals): every Insert / Add(position) / Insert(extracted) / Add(position, extracted) / Insert(range) / Reserve that "
             "must grow throws invalid_argument and leaves keys, capacity, bucket count and version as they were, calls that need no growth "
             "succeed, and after the switch is off the position made before the refused calls is still accepted and the table grows normally. Then random histories (60-100 "
             "per configuration, 80-100 calls; thorough 400-600 x 160-200) over a pool of handles made at random earlier moments. What the model "
             "cannot know (iteration order, capacity after a growth, order inside a multi-hash group) is read from the real container and written on "
             "the operation line. Property-level oracle, independent of the model: per version cell the harness records from complete snapshots of "
             "the real containers the last call after which contents / capacity / layout / rows differed; a use of a handle older than that, of a "
             "handle of the other object, of an end / empty handle where an element is needed, or with an out-of-range index must throw "
             "std::invalid_argument and leave both snapshots equal; a use of a handle younger than the last change with valid arguments must not "
             "throw; entry points that increment a version without changing anything are judged at model level only. distinct_nontrivial counts "
             "distinct (configuration, last mutating entry point, use, handle kind, verdict)."),
    "runtime_only": ["that no write precedes a failing check in the C++ (snapshot comparison after every throwing call, incl. restored row numbers "
                     "after a throwing DataTable range Remove / Assign)",
                     "memory safety of every accepted and every rejected call (ASan+UBSan): e.g. a missed version check on a selection reads freed rows"],
    "not_modelled": ["version wrap-around after 2^64 increments (excluded by hypothesis; shown to be the only gap)",
                     "ArrayIndexIterator += diff with index + diff outside ptrdiff_t: the sum is formed in signed arithmetic in ArrayUtility.h:75 "
                     "(signed overflow; behaves as a wrap in practice and is then rejected) - the harness keeps index + diff inside ptrdiff_t",
                     "Array (non-segmented) iterator dereference has no range check in the source; only null-iterator dereference is claimed",
                     "TreeSet Add(iter, extracted item) on a tree without root node (pvAddFirst keeps mNodeParams when the creator throws)",
                     "stdish wrappers (C06), assertion-mode builds (they abort instead of throwing), extraCheckMode assertions (C03/C04)",
                     "concurrent use; DataTable::Swap / move; order of rows inside a multi-hash group (bounds indexes are mapped by row identity)"],
}
