"""Registry entry of property C16 (see tools/registry.py)."""

_PARTS = 7

PROP = {
    "id": "C16",
    "level": "proof",
    "technique": ("Lean 4 proof (bit-window invariant for the de Bruijn Log2, class arithmetic of the sqrt sizing, induction over "
                  "operation histories of the segment list) + exhaustive function-level and container-level correspondence"),
    "level_text": ("Kernel-checked theorems, for both sizings and every logInitialItemCount: index -> (segment, offset) is a bijection onto "
                   "the slots of all segments, enumerates segments in order and fills each completely before the next (all natural indexes); "
                   "the 64-bit functions as written (wrap-around, shifts, masks, de Bruijn Log2 with the extracted tables) equal the ideal "
                   "ones for every size_t index except the single point L0=0, index=2^64-1 (F14, proved to fail); for every history of "
                   "AddBack/Reserve/SetCount/Shrink/Clear/RemoveBack/Insert the place (allocation id, offset) of an element that stays "
                   "live never changes, growth only appends segments, capacity = allocated slots. The models are executable and compared on "
                   "every run with the real static functions (exhaustive sweep of all indexes < 2^22, thorough 2^26, x L0 0..16 x both "
                   "sizings, plus an in-order-fill oracle up to 2^26 / 2^32 and boundary points up to 2^64) and with real SegmentedArrays "
                   "whose element addresses are re-checked after every operation."
                   ' GetSegItemIndexes / GetIndex / GetItemCount and the two log helpers of both sizings are additionally TRANSLATED from the header text on every run (tools/translate.py) and proved equal to the machine-level model; the round trip is proved for the generated definitions (C16_roundtrip_translated_*).'
                   ' Area Misc of the translator (tools/trspecs/Misc.py): UIntMath::Log2 and both de Bruijn pvLog2 variants (tables, smear lines, multiplier, shift) '
                   'are TRANSLATED from Utility.h on every run and proved equal to the machine-word models, hence to floor(log2) (C16_log2_translated, '
                   'C16_log2_32_translated); the translated log helpers of the sqrt sizing are shown to call that translated Log2 '
                   '(C16_log_helpers_use_translated_log2), so no hand-written Log2 remains under the translated round trip.'
                   ' Second wave (tools/trspecs/Wave2.py, Proof/TrEqWave2Seg.lean): the capacity arithmetic of the container - segments needed by '
                   'pvIncCapacity / pvDecCapacity, its loop test and Reserve argument, segments removed, the tests of Reserve, Shrink(capacity), AddBackCrt, '
                   'pvIncCount and the shrink target - is translated and proved equal to the container model for every sizing '
                   '(C16_capacity_ops_translated, C16_incCapacity_loop_translated).'),
    "level_note": ("Trusted: Lean kernel, the three standard axioms, extractor, correspondence harness (g++, -fno-access-control). Modelled not "
                   "verified: that `mSegments[s] + o` is the address of slot o of block s (pointer arithmetic), the memory manager returning "
                   "distinct live blocks (allocation ids), element construction/destruction. Shifts by 64 or more (L0 >= 64, or "
                   "logItemCount + L0 >= 64) are undefined behaviour in C++ and excluded by hypotheses (L0 < 64 / L0 <= 31)."),
    "modules": ["Momo.Props.C16"],
    "theorems": [
        "Momo.Seg.C16_log2_debruijn64",
        "Momo.Seg.C16_log2_debruijn32",
        "Momo.Seg.C16_roundtrip",
        "Momo.Seg.C16_offset_in_segment",
        "Momo.Seg.C16_inverse",
        "Momo.Seg.C16_in_order_fill",
        "Momo.Seg.C16_monotone",
        "Momo.Seg.C16_capacity_counts_slots",
        "Momo.Seg.C16_w64_excludes_one_point",
        "Momo.Seg.C16_machine_segItem",
        "Momo.Seg.C16_machine_getIndex_itemCount",
        "Momo.Seg.C16_roundtrip64",
        "Momo.Seg.C16_roundtrip64_cnst",
        "Momo.Seg.C16_offset_in_segment64",
        "Momo.Seg.C16_inverse64",
        "Momo.Seg.C16_in_order_fill64",
        "Momo.Seg.C16_f14_point",
        "Momo.Seg.C16_reachable_wf",
        "Momo.Seg.C16_growth_appends_only",
        "Momo.Seg.C16_growth_keeps_addresses",
        "Momo.Seg.C16_any_op_keeps_addresses",
        "Momo.Seg.C16_history_keeps_addresses",
        "Momo.Seg.C16_element_inside_its_segment",
        "Momo.Seg.C16_distinct_elements_distinct_places",
        "Momo.Seg.C16_addBack_new_segment_is_next",
        "Momo.Seg.C16_capacity_is_total_slots",
        "Momo.Seg.C16_segment_count_for_capacity_is_least",
        "Momo.Seg.C16_roundtrip_translated_sqrt",
        "Momo.Seg.C16_roundtrip_translated_cnst",
        "Momo.Seg.C16_log2_translated",
        "Momo.Seg.C16_log2_32_translated",
        "Momo.Seg.C16_log_helpers_use_translated_log2",
        "Momo.Seg.C16_itemCount_translated_cnst",
        "Momo.Seg.C16_capacity_ops_translated",
        "Momo.Seg.C16_incCapacity_loop_translated",
    ],
    # one source, eight executables (they compile and run in parallel): an ASan+UBSan build that runs every container
    # configuration, and 7 parts; part k sweeps the k-th seventh of the index ranges and runs every 7th boundary /
    # container configuration
    "harnesses": [
        {"name": "c16_seg_asan", "src": "c16_seg.cpp", "sanitize": "asan", "flags": ["-DC16_CONT_ONLY", "-DC16_PART=0", "-DC16_PARTS=1"],
         "timeout_quick": 600, "timeout_thorough": 3000},
    ] + [
        {"name": "c16_seg_p%d" % k, "src": "c16_seg.cpp", "flags": ["-DC16_PART=%d" % k, "-DC16_PARTS=%d" % _PARTS],
         "timeout_quick": 600, "timeout_thorough": 3000}
        for k in range(_PARTS)
    ],
    "rule": ("sweep: every index < 2^22 (thorough 2^26) x L0 0..16 x {sqrt,cnst}: (segment, offset, GetIndex, GetItemCount) of the real "
             "functions checksummed per 2^18 block against the Lean machine model, and checked against the in-order-fill oracle (a "
             "(segment, offset) cursor that advances by GetItemCount; round trip; offset < count); the oracle alone continues to 2^26 "
             "(thorough 2^32). bnd: every 2^k-3..2^k+3 up to 2^64-1, the sqrt class boundaries ((2^k-1)<<L0)+-2, random biased 64-bit "
             "indexes (round trip, offset < count, GetIndex(seg,0)+offset = index, successor rule), and (segment, offset) -> index -> "
             "(segment, offset) with 5 offsets around the first/last segment of every class, every 2^k+-1 and random segments (inverse, "
             "affine, next segment starts where this one is full); the F14 point is tolerated by tag. log: Log2 (8- and 4-byte) on 0, "
             "every 2^k, 2^k+-1, all-ones, random, exhaustive < 2^18 (thorough 2^22; 4-byte: all 2^32 against clz). cont: 24 "
             "configurations (both sizings, L0 in 0..16; 12 of them again in the ASan build), random histories (500 steps, thorough "
             "2500) of AddBack bursts / Reserve / SetCount up+down / RemoveBack / Shrink / Clear / Insert / address queries with "
             "boundary-biased arguments (count+-1, capacity+-1, segment starts +-1) on real arrays with a tracking memory manager "
             "and a counting element type; after every operation the segment list (allocation serial numbers), count, capacity and "
             "slot total are compared with the Lean container model, recorded element addresses and values are re-checked, growth "
             "must perform 0 moves/assignments of elements; then 40 growth attempts with injected bad_alloc (oracle only). "
             "distinct_nontrivial counts (sizing, L0, slice) sweeps, boundary configurations, Log2 top-bit positions, and growth "
             "operations that allocated a segment while elements were live (keyed by configuration, operation, segment counts, "
             "element count)."),
    "runtime_only": ["memory safety of element access / growth / shrink on all 24 container configurations (ASan + UBSan build c16_seg_asan)",
                     "addresses of elements under growth with allocation failures (oracle inside the harness, no model)",
                     "construct/destroy balance of the counting element type"],
    "not_modelled": ["ArrayShifter::Insert/Remove value shifting (only the Reserve + append part of Insert is modelled)",
                     "copy / move construction, assignment and Swap of whole arrays (they create or exchange segment lists, no growth)",
                     "the container model uses the ideal index functions; their equality with the 64-bit functions for every size_t "
                     "argument except F14 is theorem C16_machine_* and the real container is compared with the model at run time",
                     "the nested Array<Item*> that stores the segment pointers (its own reallocation is invisible to elements)",
                     "exception roll-back inside pvIncCount/pvIncCapacity (exercised with injected bad_alloc, oracle only)",
                     "32-bit size_t builds (only the 4-byte Log2 variant is modelled and proved)"],
}
