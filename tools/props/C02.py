"""Registry entry of property C02 (see tools/registry.py)."""

_PARTS = 11

PROP = {
    "id": "C02",
    "level": "proof",
    "technique": ("Lean 4 proof (refinement of the lazy B-tree to a sorted list: structural induction over nodes and paths, "
                  "invariant over operation histories) + state-machine correspondence on the real TreeSet / TreeMap including the "
                  "complete node shape"),
    "level_text": ("Kernel-checked theorems for every node capacity >= 1, capacity step, first-pool rule, linear and binary in-node search, "
                   "unique and multi keys, every item type and every comparison that is asymmetric with a transitive 'not greater': on every "
                   "well-formed tree (empty leaves and empty internal nodes allowed) lower/upper bound, find, contains and key count denote the "
                   "indexes std::lower_bound/upper_bound give on the in-order list; ++/-- move the index by one, forward traversal = the list, "
                   "backward = its reverse; pvAdd at any iterator (in place, grow, cascading split, new root) = List.insertIdx at the iterator's "
                   "index; pvInsert = stable upper-bound insertion (unique keys: no insertion, iterator to the equivalent element); pvRemove for "
                   "leaf and internal items (predecessor from a leaf or an internal node, empty left subtree destroyed) with the whole pvRebalance "
                   "loop (merges, fast stop, saved node, root collapse) = List.eraseIdx with the returned iterator at the same index; "
                   "Remove(begin,end) incl. pvRemoveRange = take ++ drop; Remove(key), Remove(filter) = List.filter; Insert(range) with its shortcut "
                   "= repeated stable insertion; MergeTo by every path (swap, pvMergeFast for any two heights, pvMergeTo, pvMergeToLinear) = the "
                   "reference merge; ResetKey = List.set; copy = same sequence; all keep balance, capacities, count and sortedness. History "
                   "theorem C02_history: for every finite history of all these operations from the empty container the model's sequence equals "
                   "the reference sequence and the invariants hold. The executable model is compared with the real containers operation by "
                   "operation (results, positions, traversals, bounds, complete node shape) on every run."
                   " TreeNode::GetSplitItemIndex is additionally TRANSLATED from the header text on every run (tools/translate.py) and proved equal to the model's split rule (C02_splitIdx_translated)."
                   " Second wave (tools/trspecs/Wave2.py, Proof/TrEqWave2Tree.lean): Node::pvGetLeafMemPoolIndex / IsLeaf / GetCapacity / leafMemPoolCount / the "
                   "constructor's byte cast (details/TreeNode.h), the tests and CreateNode sizes of pvAdd / GrowLeafNode / pvSplitNode, the three tests of "
                   "pvRebalance(parentNode, index, savedNode) and the WHOLE binary-search loop of pvFindFirst(node, pred) (TreeSet.h) are translated on every run "
                   "and proved equal to leafCap / capOf / addLeaf / tryMerge / findBin (C02_node_capacity_translated, C02_add_leaf_translated, "
                   "C02_merge_test_translated, C02_find_bin_translated)."),
    "level_note": ("Nothing is left partial at the level of the model. Trusted: Lean kernel, the three standard axioms (the reference semantics "
                   "of merge tests well-formedness of the other container classically), extractor, correspondence harness (g++ -fno-access-control, "
                   "ASan+UBSan). Modelled not verified: parent pointers (abstracted to paths; the bottom-up loops are unwound along the path), item "
                   "storage inside nodes (contiguous / indexed layout, relocation by memcpy / move / copy), memory pools; move and swap exchange "
                   "whole containers (harness only)."),
    "modules": ["Momo.Props.C02"],
    "theorems": [
        "Momo.BTree.C02_bounds",
        "Momo.BTree.C02_find_contains",
        "Momo.BTree.C02_key_count",
        "Momo.BTree.C02_traversal",
        "Momo.BTree.C02_iterator_steps",
        "Momo.BTree.C02_hinted_add",
        "Momo.BTree.C02_insert_stable",
        "Momo.BTree.C02_remove_iterator",
        "Momo.BTree.C02_rebalance_preserves",
        "Momo.BTree.C02_reset_key",
        "Momo.BTree.C02_remove_range",
        "Momo.BTree.C02_remove_key",
        "Momo.BTree.C02_remove_if",
        "Momo.BTree.C02_insert_range",
        "Momo.BTree.C02_merge_fast",
        "Momo.BTree.C02_merge",
        "Momo.BTree.C02_copy",
        "Momo.BTree.C02_history",
        "Momo.BTree.C02_history_core",
        "Momo.BTree.C02_splitIdx_translated",
        "Momo.BTree.C02_node_capacity_translated",
        "Momo.BTree.C02_add_leaf_translated",
        "Momo.BTree.C02_merge_test_translated",
        "Momo.BTree.C02_find_bin_translated",
    ],
    "harnesses": [
        {"name": "c02_btree_p%d" % k, "src": "c02_btree.cpp", "sanitize": "asan", "flags": ["-DC02_PART=%d" % k, "-O0"],
         "timeout_quick": 600, "timeout_thorough": 3000}
        for k in range(1, _PARTS + 1)
    ],
    "rule": ("65 template configurations in 11 executables (one source, -DC02_PART=k; -O0 keeps the ASan+UBSan compile inside the quick budget): "
             "TreeSet with trivially relocatable / nothrow-movable / copy-only items and TreeMap<int, V> with the same three value categories, "
             "parts 9-11: a fourth item category 'copy-only, assignment by value, noexcept swap' (KS / VS: not nothrow relocatable but nothrow "
             "swappable, static_asserted, so contiguous nodes shift by std::iter_swap and internal items are replaced through pvAssignAnyway's "
             "swap variant) as set item, map value and map key; TreeMap with a movable key class (KM), copy-only key classes and pointer keys "
             "(TreeTraits::IsLess(KeyArg1*, KeyArg2*)) using every spelling of insert (Insert / InsertVar / InsertCrt x Key&& / const Key& x "
             "Value&& / const Value&) and hinted add (Add / AddVar / AddCrt incl. AddCrt(iter, PairCreator)) chosen by the element id, with the "
             "check that the key argument is moved-from exactly when it was passed as rvalue and inserted and that every stored key object "
             "is intact; TreeMap(std::initializer_list) for 1..6 pairs; TreeTraitsStd with a transparent stateful comparison object (state read "
             "back through GetLessFunc after every operation). In every configuration whose traits accept it (all but TreeTraitsStd<std::less<Key>> "
             "and pointer keys) each lookup is also made with an argument of another type (Probe: GetLowerBound / GetUpperBound / Find / "
             "ContainsKey / GetKeyCount<KeyArg>, const and non-const overloads of TreeMap), compared with the reference and, on every other "
             "`q` line, with the model. "
             "unique and multi, maxCapacity {1,2,3,4,5,8,32} x capacityStep {1,2,4,8,16, 0 = maxCapacity} x MemPoolParams block counts {1,2,3,8} "
             "(cached free blocks 0 and >0) x contiguous / indexed nodes x linear / binary search, TreeNode<> with its default arguments (model "
             "parameters from Momo.Extracted), TreeTraitsStd (non-empty traits: MergeTo always generic). Per configuration: four key "
             "distributions (ascending, descending, clustered duplicates, uniform) each with build (insert / hinted add at a random legal hint / "
             "range insert), random churn (all operations incl. remove by key / iterator / range / predicate, extract then re-insert or hinted add "
             "possibly into another container, ResetKey, copy / move / swap / clear), drain in six styles until empty; then merges: source ordered "
             "before / after the destination for both height relations, interleaved, touching seam with equal keys, into empty (null root and "
             "empty-leaf root), from empty, generic MergeTo<Set> through a forwarding adapter, from a HashSet (arrival order logged). After "
             "every operation: returned position as in-order index, count, node shape (pre-order (isLeaf,count,capacity) through private "
             "members), forward and backward traversal with element identities (every operation up to 48 elements, every 8th above), lower / "
             "upper bound / find / contains / key count for two keys (all keys at checkpoints) - compared with the Lean model line by line and "
             "with a std::multiset<(key,id)> ordered by key (property-level oracle; merges: source elements go behind equal destination "
             "elements unless the whole source precedes the destination). distinct_nontrivial counts distinct (configuration, operation, "
             "height before>after, node count before>after, empty leaf present, empty internal node present) among operations that changed "
             "the node structure or left an empty node."),
    "runtime_only": ["memory safety of node / item storage for the four relocation categories and both layouts (ASan+UBSan, element payload "
                     "ledger)"],
    "not_modelled": ["node layout (contiguous vs indexed) and item relocation category: no effect on the model, exercised by the harness",
                     "which spelling of an operation is called (Key&& / const Key&, creator / variadic / value overloads, heterogeneous "
                     "lookup argument, initializer-list constructor): the same model operation; whether the key argument is consumed is "
                     "checked by the harness only",
                     "iterator version checks and CheckMode (C15)", "allocation failures / throwing comparisons (C04, C10)",
                     "stdish::set/map wrappers incl. their handling of invalid hints (C06); native Add(iter, item) requires a valid hint"],
}
