"""Registry entry of property C14 (containers are regular values)."""

_FLAGS = ["-O0", "-g1"]   # 9 allocator configurations per wrapper: keep the ASan compile inside the quick budget


THEOREMS = [
    "Momo.Val.C14_copy_ctor",
    "Momo.Val.C14_copy_ctor_with_manager",
    "Momo.Val.C14_independent",
    "Momo.Val.C14_copy_independent",
    "Momo.Val.C14_copy_destroy_either",
    "Momo.Val.C14_copy_assign",
    "Momo.Val.C14_move_ctor_exact",
    "Momo.Val.C14_move_assign_exact",
    "Momo.Val.C14_null_destroy",
    "Momo.Val.C14_null_clear",
    "Momo.Val.C14_swap_exact",
    "Momo.Val.C14_null_copy_assign",
    "Momo.Val.C14_null_move_assign",
    "Momo.Val.C14_null_reusable_arraylike",
    "Momo.Val.C14_self_assign_id",
    "Momo.Val.C14_propagation_table",
    "Momo.Val.C14_manager_assign_table",
    "Momo.Val.C14_wrapper_copy_assign",
    "Momo.Val.C14_wrapper_copy_assign_to_moved_from",
    "Momo.Val.C14_wrapper_move_ctor_equal_steals",
    "Momo.Val.C14_unequal_move_elementwise_partial",
    "Momo.Val.C14_wrapper_move_assign_partial",
    "Momo.Val.C14_destroy_frees_through_allocator",
    "Momo.Val.C14_F15_wrapper_assign_undefined",
    "Momo.Val.C14_history",
    "Momo.Val.C14_history_ownership",
    "Momo.Val.C14_history_ledger",
    "Momo.Val.C14_history_no_leak",
    "Momo.Val.C14_rebuild_layouts",
]

LEVEL_TEXT = (
    "Kernel-checked theorems over an executable ownership model (a heap of blocks that remember the allocating manager; container "
    "objects = manager or null crew pointer + block handles + internal-buffer items; the special member functions of the native containers "
    "and of the stdish wrappers as sequences of the primitive steps new / copy / move / swap / destroy / clear / set-layout, transcribed from "
    "the source incl. the temporaries of `C(x).Swap(*this)`), universally quantified over the configuration (internal capacity, crew "
    "pointer or inline manager, constructor blocks, trivially-relocatable / movable / copy-only elements, Array-style or swap-style "
    "assignment, the manager's copy constructor, POCCA/POCMA/POCS/is_empty), over all worlds satisfying the ownership invariant WF and all "
    "slots. Proved: a copy (both constructors, native and wrapper copy assignment) has equal contents, a manager chosen as the source "
    "dictates, is usable, shares no block with any live object, and leaves the source unchanged; any history of operations that does not "
    "name an object leaves its handles and contents unchanged (frame), in particular after a copy either side may be mutated or destroyed; "
    "move construction / assignment hand over exactly the former object (same blocks, heap untouched), emit no copy event for movable "
    "elements, no allocation, release only the target's former blocks through the target's former manager, and leave the source in the "
    "null state; on the null state destroy, Clear, Swap (either side), copy- and move-assignment are defined and the object is usable "
    "after assignment (array-like kinds: immediately); self copy/move assignment (native and wrapper) and self swap return the identical "
    "world; swap exchanges the two objects exactly with no allocation/free/copy; the wrappers' allocator choice equals the standard's "
    "table for all trait combinations and identities, MemManagerStd's operator= overload selection uses only non-throwing allocator "
    "operations for all 16 combinations; wrapper copy assignment ends with the tabled manager and all blocks allocated by it; wrapper move "
    "construction with an unequal allocator and wrapper move assignment in the table's element-wise rows perform exactly one element "
    "construction per source element in iteration order (moves if movable), every target block is new and from the tabled allocator, every "
    "freed block is freed through the allocator of the object that owned it (no block changes owner), the source stays a non-null empty "
    "object with its own allocator; in the steal rows the target becomes exactly the former source; a destructor frees every owned block "
    "once through its allocating manager; history theorems: every finite operation list defined from the initial world ends in a WF world "
    "(no dangling handle, no manager mismatch, no shared block, no block held twice), its complete manager-event trace passes the ledger "
    "check (a block is handed out only while not live and given back only while live and to the manager identity that allocated it) ending "
    "in the final heap's owner map, every live block is owned by a live object, and after all objects died no block is live. The "
    "correspondence harness drives the real containers and the model through the same random histories and "
    "compares after every operation, for every live object, the manager identity (or null crew), capacity, internal items and the items of "
    "every owned heap block, plus per operation the element copy/move counts, the sets of manager identities that allocated / freed, the "
    "identities still owning blocks and whether the target took over the source's first block.")

LEVEL_NOTE = (
    "Label partial. Two theorems are partial by name (C14_unequal_move_elementwise_partial, C14_wrapper_move_assign_partial): the block "
    "layout produced by an element-wise insertion (and by every mutation) is a parameter reported by the harness, so 'the target holds "
    "exactly the source's elements' after an unequal-allocator move is checked by the harness's reference-contents oracle, not proved; the "
    "full statements are the defs C14_unequal_move_elementwise and C14_wrapper_move_assign_elementwise. Wrapper move assignment onto a "
    "moved-from (null-crew) target with a propagating allocator is modelled and compared but covered only by the frame/history theorems. "
    "Temporaries of `C(x).Swap(*this)` live in two reserved slots (Cfg.t1, t2): the frame theorem excludes them from the untouched objects. "
    "Modelled, not verified: ownership is a relation between handles and a block "
    "map - that the real pointers of a copy do not alias the original's memory is runtime evidence (ASan + the harness mutating / destroying "
    "either side); the correspondence compares block *contents and owners*, never addresses (st= flag: first block identical or not). "
    "Definedness (`step = some`) is proved for the null-state operations; elsewhere it is a hypothesis discharged by the run-time comparison "
    "(the model answers `crash` where the library would). Open known finding F15 (mirrored by C14_F15_wrapper_assign_undefined): operator= / "
    "swap of a moved-from stdish set/map/unordered_* whose allocator does not propagate reads the stolen crew - the harness probes it in a "
    "forked child and reports KNOWN-FINDING; 'assignable' is therefore proved for native containers unconditionally and is false for such "
    "wrappers. Driven by the harness: Array (internal capacity 0/2/3/4), SegmentedArray (cnst, sqrt), HashSet (Default, LimP4, Open8, "
    "Open2N2 buckets, inline and pointer crew), HashMap, HashMultiMap, TreeSet/TreeMap (node capacities 2, 4, default), DataTable, and "
    "stdish vector, set, multiset, map, unordered_set, unordered_map, unordered_multimap each with 8 POCCA/POCMA/POCS combinations of a "
    "stateful allocator + a stateless one; MemPool and MemManagerStd's 16 assign paths at function level. Trusted: Lean kernel + the three "
    "standard axioms, the harness and its identity-recording managers (g++, -fno-access-control, ASan/UBSan), the transcription of the "
    "member functions into step lists.")

RULE = (
    "Per container type (one suite each, 6 executables): `runs` random histories (quick 8, wrappers 3; thorough 40 / 16) over 5 named slots. "
    "A history starts with 2-3 objects with fresh manager identities put into a chosen state (empty; 1-3 elements = inside an internal "
    "capacity; 8-47 elements = grown several times; filled then `special`: reserve far above count / shrink / remove-back for arrays, "
    "piled-up hash-table generations through injected copy faults for copy-only elements, thinned-out deep tree, value-less multimap keys; "
    "20-79 insertions then up to 14 removals), followed by 40 (thorough 60) weighted random operations: copy construction (12%), copy "
    "construction with a fresh manager (4%), wrapper move construction with an equal or a fresh allocator (6%), move construction (6%), "
    "swap (12%, wrappers only when POCS or equal allocators), copy assignment (14%), move assignment (14%), self copy/move assignment (3% "
    "each), destroy (6%), Clear in every variant (5%), new (3%), insert 1-40 / remove / special on usable objects (12%); operands are drawn "
    "from all live objects incl. moved-from ones; at the end every object is destroyed and ledger and element counter must be empty. "
    "After every operation the independent oracle compares every live object with reference contents and reference manager identity, and the "
    "ledger checks every deallocation against the allocating identity and size. Function level: all 16 MemManagerStd assign-path trait "
    "combinations, 40 MemPool move / move-assign / swap rounds for two manager types, the F26 regression probes in child processes. "
    "Seventh executable (c14_misc, property level only, no model lines): DataSelection and DataConstSelection of two tables (14 / 9 rows, "
    "exception-mode settings with version checks, stateful and stateless manager) in 4 sizes (empty, 3 rows inside the internal capacity, every "
    "third row, all rows) - copy construction, move construction, copy / move assignment and Swap for all 8 x 8 (a, b) pairs, the three self "
    "forms, both conversions Selection -> ConstSelection, and 16 cases in which a table removes a row after Swap / assignment (the version "
    "keeper must have travelled with the rows); HashSet / HashMap over the string specialisation of HashTraits (default-constructed traits, "
    "0 / 1 / 5 / 40 / 300 keys, lookups by string, string_view and const char*); copy construction / copy assignment / default construction of "
    "the InsertResult of HashSet, HashMap, TreeSet, TreeMap. "
    "evaluations = operations executed; distinct_nontrivial = distinct (suite, history index): every history contains at least two live "
    "objects and 40 value operations; counters op.* / null.* / f15.* give the per-kind totals (e.g. op.move_assign_unequal_elementwise, "
    "null.copy_assign_target, null.reused_at_once).")

RUNTIME_ONLY = [
    "aliasing-freedom of the real heap: ASan/UBSan on every history (use-after-free / double free after destroying or mutating one side of a copy, move or swap)",
    "ledger: every block deallocated through a manager with the identity (and size) that allocated it; nothing outstanding and no element object alive after all objects died",
    "reference contents and reference manager identity of every live object after every operation (also decides the unproved conjunct of the element-wise move)",
    "no copy construction of movable elements during move construction / move assignment / swap (element counters)",
    "MemPool move / move-assign / swap between equal and unequal managers (property-level checks only, no model)",
    "c14_misc: a selection is compared as (list of raw-row pointers, column values read through the raws, column list address, version cell "
    "and snapshot, manager identity, heap block or internal buffer): a copy equals the source in everything but the block and the "
    "copy-constructed manager, shares no block with it, and both sides survive mutation / destruction of the other; a move and a swap hand "
    "over the identical block; a moved-from selection is empty, clearable, swappable and assignable; self assignment / self swap change "
    "nothing; Swap allocates nothing; after Swap / assignment a selection is rejected (invalid_argument) exactly when the table its rows "
    "now come from removed a row; string-keyed sets / maps are compared with std::set / std::map after every copy / move / swap / "
    "assignment; InsertResult copies compare equal field by field and leave the source unchanged",
    "regression of repaired findings: F26 (DataTable swap / assignment with stateful managers) probed in child processes; F12 (Clear on a moved-from tree) exercised inside the histories (counter null.clear)",
]

NOT_MODELLED = [
    "block layout produced by insertions / removals / Reserve / Shrink and by element-wise transfer (reported by the harness, adopted by the model: growth and node splitting belong to C01/C02/C05/C16)",
    "pool-internal blocks: frees of Clear(false) on hash tables / DataTable and of SegmentedArray's copy constructor are not predicted (F= printed as *)",
    "element moves inside hash / tree nodes during mutations (m= compared only for the sequence containers)",
    "exceptions thrown during copy construction / assignment (strong guarantee is C03/C04)",
    "iterator / reference validity across moves and swaps (C06, C15)",
    "the wrappers' swap with unequal non-propagating allocators (undefined behaviour by the standard; never generated)",
]

PROP = {
    "id": "C14",
    "level": "proof",
    "technique": "Lean 4 proof (ownership invariant over a heap of blocks, frame lemma, decision tables) + state-machine correspondence on manager identity, block layout and element events",
    "level_text": LEVEL_TEXT,
    "level_note": LEVEL_NOTE,
    "modules": ["Momo.Props.C14"],
    "theorems": THEOREMS,
    "harnesses": [
        {"name": "c14_seq", "src": "c14_value.cpp", "sanitize": "asan", "flags": ["-DVF_PART=0"] + _FLAGS},
        {"name": "c14_hash", "src": "c14_value.cpp", "sanitize": "asan", "flags": ["-DVF_PART=1"] + _FLAGS},
        {"name": "c14_tree", "src": "c14_value.cpp", "sanitize": "asan", "flags": ["-DVF_PART=2"] + _FLAGS},
        {"name": "c14_wvec_set", "src": "c14_value.cpp", "sanitize": "asan", "flags": ["-DVF_PART=3"] + _FLAGS},
        {"name": "c14_wmap_uset", "src": "c14_value.cpp", "sanitize": "asan", "flags": ["-DVF_PART=4"] + _FLAGS},
        {"name": "c14_wumap", "src": "c14_value.cpp", "sanitize": "asan", "flags": ["-DVF_PART=5"] + _FLAGS},
        {"name": "c14_misc", "src": "c14_value.cpp", "sanitize": "asan", "flags": ["-DVF_PART=6"] + _FLAGS},
    ],
    "rule": RULE,
    "runtime_only": RUNTIME_ONLY,
    "not_modelled": NOT_MODELLED,
}
