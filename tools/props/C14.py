"""Registry entry of property C14 (containers are regular values)."""

_FLAGS = ["-O0", "-g1"]   # 9 allocator configurations per wrapper: keep the ASan compile inside the quick budget

PROP = {
    "id": "C14",
    "level": "proof",
    "technique": "Lean 4 proof (ownership invariant over a heap of blocks, frame lemma, decision tables) + state-machine correspondence on manager identity, block layout and element events",
    "level_text": "",
    "level_note": "",
    "modules": ["Momo.Props.C14"],
    "theorems": [],
    "harnesses": [
        {"name": "c14_seq", "src": "c14_value.cpp", "sanitize": "asan", "flags": ["-DVF_PART=0"] + _FLAGS},
        {"name": "c14_hash", "src": "c14_value.cpp", "sanitize": "asan", "flags": ["-DVF_PART=1"] + _FLAGS},
        {"name": "c14_tree", "src": "c14_value.cpp", "sanitize": "asan", "flags": ["-DVF_PART=2"] + _FLAGS},
        {"name": "c14_wvec_set", "src": "c14_value.cpp", "sanitize": "asan", "flags": ["-DVF_PART=3"] + _FLAGS},
        {"name": "c14_wmap_uset", "src": "c14_value.cpp", "sanitize": "asan", "flags": ["-DVF_PART=4"] + _FLAGS},
        {"name": "c14_wumap", "src": "c14_value.cpp", "sanitize": "asan", "flags": ["-DVF_PART=5"] + _FLAGS},
    ],
    "rule": "",
    "runtime_only": [],
    "not_modelled": [],
}
