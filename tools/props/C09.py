"""Registry entry of property C09 (see tools/registry.py)."""

_PARTS = [
    ("c09_pool_layout", "1"),
    ("c09_pool_state_a", "2"),
    ("c09_pool_state_b", "3"),
    ("c09_pool_state_c", "4"),
]

PROP = {
    "id": "C09",
    "level": "proof",
    "technique": ("Lean 4 proofs (integer arithmetic of the buffer layout for every base address; invariant of the buffer/list/cache state "
                  "machine by induction over operations; separation-style reasoning for the prev/next pointer surgery) + function-level and "
                  "state-level correspondence with the real MemPool on a memory manager that returns chosen addresses"),
    "level_text": ("Kernel-checked theorems for every legal (blockSize, alignment <= 1024, blockCount < 128, cache size) and every integer base "
                   "address aligned as the pool assumes of its manager: pvGetBlockIndex inverts pvGetBlock; pvNewBuffer's blocks are aligned, pairwise "
                   "disjoint, inside [base, base+pvGetBufferSize()), disjoint from every metadata byte; the single-block form (16-bit offset); for "
                   "every state reached by any Allocate/Deallocate/DeallocateIf/DeallocateAll/MergeFrom history of the model (C09_history): Allocate "
                   "returns a block that was not live or leaves the pool unchanged, the count equals the number of live blocks, DeallocateIf asks about "
                   "exactly the live blocks and frees exactly the selected ones, merging keeps every live block live and freeable, every free handed to "
                   "the manager matches an outstanding allocation and the ledger is empty after DeallocateAll/destruction; the same for blockCount 1 "
                   "(C09_single_state); the pointer code of MergeFrom, "
                   "pvMoveBufferToHead, pvDeleteBuffer and the append in pvNewBlock implements the list operations of the state machine. The models "
                   "are executable and compared with the real pool on every run (layout: every residue of the base modulo S*N for small "
                   "periods; state: every answer, manager call, list order, cache, metadata byte)."
                   " The address / size arithmetic of MemPool.h (UIntMath::Ceil, GetBlockAlignment, CorrectBlockSize, pvUseCache, pvGetAlignmentAddend, "
                   "pvGetBufferSize0/1, pvGetBufferSize, pvIsBufferBytesNear, pvGetBlock, pvGetBlockIndex, pvNewBuffer up to its first write, pvNewBlock1 up "
                   "to its write, pvGetBlocksEndPosition and the four metadata position functions) is additionally TRANSLATED from the header text on every "
                   "run (tools/translate.py, tools/trspecs/Pool.py -> Momo/Translated/Pool.lean: size_t wrap-around, ptrdiff_t two's complement, int8_t "
                   "truncation explicit) and proved equal to the model functions whenever nothing wraps (Proof/TrEqPool.lean); the layout theorems are "
                   "restated for the generated definitions for every legal pool and every base address with base + pvGetBufferSize() < 2^63 "
                   "(C09_recover_translated, C09_newBuffer_ok_translated, C09_blocks_disjoint_inside_translated, C09_single_block_ok_translated, "
                   "C09_params_translated)."),
    "level_note": ("Trusted: Lean kernel, the three standard axioms, extractor (limits 128/1024/2/65536/16/-128), correspondence harness. "
                   "Modelled not verified: byte representation of the metadata (memcpy of int8/uint16/pointer values), the manager's contract "
                   "(alignment min(16, lowbit A); disjoint allocations), absence of 64-bit wrap-around of addresses (unbounded integers in the model). "
                   "sizeof(BufferBytes)=2, sizeof(void*)=8, alignof(max_align_t)=16 are compared with the build by the harness op `consts`."),
    "modules": ["Momo.Props.C09"],
    "theorems": [
        "Momo.Pool.C09_recover",
        "Momo.Pool.C09_newBuffer_ok",
        "Momo.Pool.C09_blocks_disjoint_inside",
        "Momo.Pool.C09_single_block_ok",
        "Momo.Pool.C09_two_buffers_disjoint",
        "Momo.Pool.C09_alloc_fresh",
        "Momo.Pool.C09_count_exact",
        "Momo.Pool.C09_dealloc_exact",
        "Momo.Pool.C09_deallocIf_exact",
        "Momo.Pool.C09_merge_keeps_blocks",
        "Momo.Pool.C09_freed_all_returned",
        "Momo.Pool.C09_history",
        "Momo.Pool.C09_single_state",
        "Momo.Pool.C09_mergeFrom_dll",
        "Momo.Pool.C09_list_ops_dll",
        "Momo.Pool.C09_deallocIf_throw_exact",
        "Momo.Pool.C09_recover_translated",
        "Momo.Pool.C09_newBuffer_ok_translated",
        "Momo.Pool.C09_blocks_disjoint_inside_translated",
        "Momo.Pool.C09_single_block_ok_translated",
        "Momo.Pool.C09_params_translated",
    ],
    "harnesses": [
        {"name": name, "src": "c09_pool.cpp", "sanitize": "asan",
         # the state parts are template-heavy and run for a second: -O0 halves their compile time
         "flags": ["-DC09_PART=" + part] + ([] if part == "1" else ["-O0"])}
        for name, part in _PARTS
    ],
    "rule": ("DeallocateIf is also run with a filter that throws at its (k+1)-th question (model line `dift`: the state must be that of a complete call whose filter answers no from then on; reported count = live blocks afterwards). "
             "layout: configurations (requested size, alignment, blockCount in {1,2,3,5,32,127}) chosen by seed - all alignments 1..32 and "
             "48,64,100,128,255,256,257,272,384,512,1000,1023,1024 first, then random 1..1024; sizes around 2A, exact multiples with both parities of "
             "S/A, random 1..300; for each configuration EVERY base residue modulo S*N (step = the manager alignment) when there are at most ~420 "
             "(thorough ~2600), otherwise all residues near multiples of S plus random ones; every real pvNewBuffer is checked block by block "
             "(alignment, inside, disjoint, metadata, pvGetBlockIndex round trip) and summarised for the model; pvGetAlignmentAddend/pvGetBufferSize* for "
             "every alignment 1..1024. dll: random doubly linked lists of 2..9 real buffers for pvMoveBufferToHead / pvDeleteBuffer / MergeFrom. state: "
             "for every blockCount in {1,2,3,5,32,127} x cache in {0,1,16}: random histories (Allocate with chosen, adjacent, reused addresses and "
             "injected bad_alloc, Deallocate biased to empty buffers, DeallocateIf with four selection patterns, DeallocateAll, MergeFrom, destruction) "
             "over up to three pools sharing one manager. distinct_nontrivial counts distinct (S,A,N,residue) layouts, distinct dll shapes and "
             "histories; a history is counted in state.histories_nontrivial when it had >= 2 buffers alive and returned >= 1 buffer before the end."),
    "runtime_only": [
        "pool code never touches a live block or memory it does not own: ASan poisoning of all live blocks and of the whole arena outside "
        "outstanding allocations while pool code runs, canary bytes outside allocations, pattern bytes inside live blocks",
        "no undefined behaviour in the address arithmetic (UBSan)",
    ],
    "not_modelled": [
        "MergeFrom for blockCount == 1 (cache flush + count transfer): executable and compared with the real pool, no kernel theorem",
        "refinement of the whole state machine to the pointer level: the list operations are proved pointer-correct one by one (C09_mergeFrom_dll, C09_list_ops_dll); the traversals of DeallocateAll / DeallocateIf follow next/prev on the list view",
        "MemPoolUInt32 (DataColumn rows), the use of MemPool inside TreeNode.h / BucketUtility.h (covered through the containers by C02/C03)",
        "Swap / move construction of pools (plain field exchange)",
    ],
}
