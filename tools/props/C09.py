"""Registry entry of property C09 (see tools/registry.py)."""

_PARTS = [
    ("c09_pool_layout", "1"),
    ("c09_pool_state_a", "2"),
    ("c09_pool_state_b", "3"),
    ("c09_pool_state_c", "4"),
    ("c09_pool_world", "5"),
    ("c09_pool_u32", "6"),
    ("c09_pool_edge", "7"),
]

PROP = {
    "id": "C09",
    "level": "proof",
    "technique": ("Lean 4 proofs (integer arithmetic of the buffer layout for every base address; invariant of the buffer/list/cache state "
                  "machine by induction over operations; separation-style reasoning for the prev/next pointer surgery) + function-level and "
                  "state-level correspondence with the real MemPool on a memory manager that returns chosen addresses; a world of pool objects with "
                  "tagged memory managers for Swap / move construction / move assignment; a second state machine for MemPoolUInt32"),
    "level_text": ("Kernel-checked theorems for every legal (blockSize, alignment <= 1024, blockCount < 128, cache size) and every integer base "
                   "address aligned as the pool assumes of its manager: pvGetBlockIndex inverts pvGetBlock; pvNewBuffer's blocks are aligned, pairwise "
                   "disjoint, inside [base, base+pvGetBufferSize()), disjoint from every metadata byte; the single-block form (16-bit offset); for "
                   "every state reached by any Allocate/Deallocate/DeallocateIf/DeallocateAll/MergeFrom history of the model (C09_history): Allocate "
                   "returns a block that was not live or leaves the pool unchanged, the count equals the number of live blocks, DeallocateIf asks about "
                   "exactly the live blocks and frees exactly the selected ones, merging keeps every live block live and freeable, every free handed to "
                   "the manager matches an outstanding allocation and the ledger is empty after DeallocateAll/destruction; the same for blockCount 1 "
                   "(C09_single_state); the pointer code of MergeFrom, "
                   "pvMoveBufferToHead, pvDeleteBuffer and the append in pvNewBlock implements the list operations of the state machine. The models "
                   "are executable and compared with the real pool on every run (layout: every residue of the base modulo S*N for small "
                   "periods; state: every answer, manager call, list order, cache, metadata byte)."
                   " The address / size arithmetic of MemPool.h (UIntMath::Ceil, GetBlockAlignment, CorrectBlockSize, pvUseCache, pvGetAlignmentAddend, "
                   "pvGetBufferSize0/1, pvGetBufferSize, pvIsBufferBytesNear, pvGetBlock, pvGetBlockIndex, pvNewBuffer up to its first write, pvNewBlock1 up "
                   "to its write, pvGetBlocksEndPosition and the four metadata position functions) is additionally TRANSLATED from the header text on every "
                   "run (tools/translate.py, tools/trspecs/Pool.py -> Momo/Translated/Pool.lean: size_t wrap-around, ptrdiff_t two's complement, int8_t "
                   "truncation explicit) and proved equal to the model functions whenever nothing wraps (Proof/TrEqPool.lean); the layout theorems are "
                   "restated for the generated definitions for every legal pool and every base address with base + pvGetBufferSize() < 2^63 "
                   "(C09_recover_translated, C09_newBuffer_ok_translated, C09_blocks_disjoint_inside_translated, C09_single_block_ok_translated, "
                   "C09_params_translated). MemPoolUInt32 (second wave, tools/trspecs/Wave2.py, Proof/TrEqWave2Pool.lean): the constructor's mMaxBufferCount / mBlockSize / size "
                   "check, pvGetBufferSize, the whole GetRealPointer (index -> buffer number, offset -> address in size_t arithmetic), the limit test, Reserve argument, "
                   "link words, link addresses and head of pvNewBuffer and the give-back test of Deallocate are translated on every run and proved equal to mkCfg / "
                   "bufferSize / realPtr / newBuffer / addBuffer / initLinks (C09_u32_params_translated, C09_u32_geometry_translated, C09_u32_newBuffer_translated)."
                   " MergeFrom for blockCount 1 (C09_single_merge: the other pool is left empty, the live blocks are those of both pools and each is "
                   "freeable through the receiving pool, counts add up, exactly one legal free per cached block of the source, every other block "
                   "transferred once) and every history of single-block pools including merges (C09_single_history: invariant, exact count, exact "
                   "ledger, empty ledger after destruction)."
                   " Swap / move construction / move assignment (MemPool(MemPool&&), operator=(MemPool&&), Swap, Data::Swap, Data(Data&&)) as "
                   "operations of a world of pool objects, each holding parameters, a memory manager with an identity (none = moved-from) and a "
                   "pool state; every manager call is tagged with the manager called. C09_swap_move_ok: Swap exchanges everything including the "
                   "manager, move construction leaves the source empty with a moved-from manager and an empty pool is destroyed without any manager "
                   "call, move assignment gives everything the target held back through the manager the target held. C09_world_history: over EVERY "
                   "history of creation / Allocate / Deallocate / DeallocateIf / DeallocateAll / MergeFrom / Swap / move construction / move "
                   "assignment / destruction, every object stays well formed with an exact count, for every manager the calls made to it are an exact "
                   "ledger of the memory held by the objects holding that manager NOW (pairwise disjoint), no call ever goes through a moved-from "
                   "manager, every live block is freeable through the object that now owns its buffer, and when all objects are destroyed every "
                   "manager has everything back. The contract of MergeFrom (different memory) is derived there from the managers' contract. "
                   " MemPoolUInt32 (second class of MemPool.h): executable model (index / buffer / offset arithmetic, free chain in the first word of "
                   "free blocks keyed by ADDRESS, pvNewBuffer with the growth of the buffer array's storage, pvClear, DeallocateAll, destructor); "
                   "C09_u32_geometry (index decomposition is a bijection; real blocks of distinct indices are disjoint, inside their buffer, "
                   "aligned with the buffers), C09_u32_alloc_fresh (Allocate returns a non-live index inside the buffers or fails - bad_alloc / "
                   "length_error - leaving buffers, chain, words and count unchanged), C09_u32_dealloc_exact, C09_u32_history (every history: "
                   "invariant, exact count, the free chain as the code walks it never contains a live block, exact ledger of buffers AND array "
                   "storage, DeallocateAll / destructor leave it empty)."
                   " Pointer level of the traversals: C09_traversal_ptr (on a heap holding the list of the state machine, pvGetNextBuffer / "
                   "pvGetPrevBuffer are the list view's nextOf / prevOf, walking next from the head visits exactly post, walking prev visits "
                   "exactly pre), C09_deallocateAll_ptr (the two loops of DeallocateAll as written give back exactly pre ++ post in the order of "
                   "the list-level loops), C09_deallocateIf_traversal_ptr (the two loops of DeallocateIf as written - next / prev read before the "
                   "sweep - visit exactly the buffers the list-level loops visit, for every sweep that keeps a well-formed list and the unvisited "
                   "buffers in place; shown for sweeps that unlink the buffer or leave it)."),
    "level_note": ("Trusted: Lean kernel, the three standard axioms, extractor (limits 128/1024/2/65536/16/-128), correspondence harness. "
                   "Modelled not verified: byte representation of the metadata (memcpy of int8/uint16/pointer values), the manager's contract "
                   "(alignment min(16, lowbit A); disjoint allocations), absence of 64-bit wrap-around of addresses (unbounded integers in the model). "
                   "sizeof(BufferBytes)=2, sizeof(void*)=8, alignof(max_align_t)=16 are compared with the build by the harness op `consts`."),
    "modules": ["Momo.Props.C09"],
    "theorems": [
        "Momo.Pool.C09_recover",
        "Momo.Pool.C09_newBuffer_ok",
        "Momo.Pool.C09_blocks_disjoint_inside",
        "Momo.Pool.C09_single_block_ok",
        "Momo.Pool.C09_two_buffers_disjoint",
        "Momo.Pool.C09_alloc_fresh",
        "Momo.Pool.C09_count_exact",
        "Momo.Pool.C09_dealloc_exact",
        "Momo.Pool.C09_deallocIf_exact",
        "Momo.Pool.C09_merge_keeps_blocks",
        "Momo.Pool.C09_freed_all_returned",
        "Momo.Pool.C09_history",
        "Momo.Pool.C09_single_state",
        "Momo.Pool.C09_mergeFrom_dll",
        "Momo.Pool.C09_list_ops_dll",
        "Momo.Pool.C09_deallocIf_throw_exact",
        "Momo.Pool.C09_recover_translated",
        "Momo.Pool.C09_newBuffer_ok_translated",
        "Momo.Pool.C09_blocks_disjoint_inside_translated",
        "Momo.Pool.C09_single_block_ok_translated",
        "Momo.Pool.C09_params_translated",
        "Momo.Pool.C09_single_merge",
        "Momo.Pool.C09_single_history",
        "Momo.Pool.C09_swap_move_ok",
        "Momo.Pool.C09_world_history",
        "Momo.Pool.C09_traversal_ptr",
        "Momo.Pool.C09_deallocateAll_ptr",
        "Momo.Pool.C09_deallocateIf_traversal_ptr",
        "Momo.PoolU32.C09_u32_geometry",
        "Momo.PoolU32.C09_u32_alloc_fresh",
        "Momo.PoolU32.C09_u32_dealloc_exact",
        "Momo.PoolU32.C09_u32_history",
        "Momo.PoolU32.C09_u32_params_translated",
        "Momo.PoolU32.C09_u32_geometry_translated",
        "Momo.PoolU32.C09_u32_newBuffer_translated",
    ],
    "harnesses": [
        dict({"name": name, "src": "c09_pool.cpp", "sanitize": "asan",
              # the state parts are template-heavy and run for a second: -O0 halves their compile time
              "flags": ["-DC09_PART=" + part] + ([] if part == "1" else ["-O0"])},
             # part 7 runs for seconds; a MergeFrom(self) that is not a no-op may loop for ever: give up early
             **({"timeout_quick": 180, "timeout_thorough": 600} if part == "7" else {}))
        for name, part in _PARTS
    ],
    "rule": ("DeallocateIf is also run with a filter that throws at its (k+1)-th question (model line `dift`: the state must be that of a complete call whose filter answers no from then on; reported count = live blocks afterwards). "
             "layout: configurations (requested size, alignment, blockCount in {1,2,3,5,32,127}) chosen by seed - all alignments 1..32 and "
             "48,64,100,128,255,256,257,272,384,512,1000,1023,1024 first, then random 1..1024; sizes around 2A, exact multiples with both parities of "
             "S/A, random 1..300; for each configuration EVERY base residue modulo S*N (step = the manager alignment) when there are at most ~420 "
             "(thorough ~2600), otherwise all residues near multiples of S plus random ones; every real pvNewBuffer is checked block by block "
             "(alignment, inside, disjoint, metadata, pvGetBlockIndex round trip) and summarised for the model; pvGetAlignmentAddend/pvGetBufferSize* for "
             "every alignment 1..1024. dll: random doubly linked lists of 2..9 real buffers for pvMoveBufferToHead / pvDeleteBuffer / MergeFrom. state: "
             "for every blockCount in {1,2,3,5,32,127} x cache in {0,1,16}: random histories (Allocate with chosen, adjacent, reused addresses and "
             "injected bad_alloc, Deallocate biased to empty buffers, DeallocateIf with four selection patterns, DeallocateAll, MergeFrom, destruction) "
             "over up to three pools sharing one manager. distinct_nontrivial counts distinct (S,A,N,residue) layouts, distinct dll shapes and "
             "histories; a history is counted in state.histories_nontrivial when it had >= 2 buffers alive and returned >= 1 buffer before the end. "
             "dll rounds additionally walk the real links from the head (`pwalk`) and compare the order in which the real DeallocateAll gives the buffers "
             "back (`pdall`). world (part 5): for (blockCount, cache) in {(1,0),(1,4),(2,0),(3,2),(5,16),(32,0)} random histories over up to five real "
             "pools with two (block size, alignment) settings and memory managers tagged 1 / 2 (moved-from managers get tag -1): new, Allocate "
             "(chosen addresses, injected bad_alloc), Deallocate, DeallocateAll, MergeFrom (equal parameters and managers), Swap (member and friend), "
             "move construction, move assignment, destruction; every answer, every manager call WITH the manager called, parameters, manager, count, "
             "cache and list of both objects are compared; a free through another manager than the one that allocated, or any call through a "
             "moved-from manager, is a property-level FAIL; world.histories_nontrivial = histories with >= 1 swap and >= 1 move. u32 (part 6): "
             "MemPoolUInt32<N> for N in {1,2,3,4,16,64}, block sizes 1..48, buffer limits from 1 buffer to 4e9 blocks: Allocate with chosen addresses "
             "for BOTH requests (array storage, buffer) and bad_alloc injected at either, length_error at the limit, Deallocate of random live "
             "indices, DeallocateAll, dumps of the free chain, destruction; compared: index, every manager call, head, count, buffer addresses, "
             "array capacity, real pointer and its (buffer, offset); u32.histories_nontrivial = histories with >= 3 buffers and >= 1 complete clear. "
             "edge (part 7, pools of ONE C++ type with run-time block size / alignment / block count / cache size, CheckMode::exception, tagged managers; "
             "model engine poolworld with the driver ops dif / mergex / params / sizemax, poolu32 with ctor): DeallocateIf with a call-counting filter on a "
             "pool without a live block (fresh; every block freed again, with cached free blocks that must be flushed and without; after a DeallocateIf that "
             "freed everything; after DeallocateAll) and the pool used afterwards; MergeFrom(self) on empty / one-buffer / several-buffer pools with cached "
             "blocks and on single-block pools (count, parameters, manager, buffer list, cache, ledger and block contents unchanged, then every block freed "
             "on its own); MergeFrom between pools differing in exactly one of block size, alignment, block count, memory manager (IsEqual false): "
             "std::invalid_argument in both directions, both pools unchanged, then still usable, mergeable with an equal pool, destroyed with everything "
             "returned; the constructor with illegal parameters: a sweep of blockCount in {0,1,2,3,5,64,126,127,128,129,255,256,65536,SIZE_MAX} x alignment in "
             "{0,1,2,3,4,7,8,16,24,100,512,1000,1023,1024,1025,2048,65536,2^63,SIZE_MAX} x block sizes around k*A (k<=5), SIZE_MAX/blockCount (+-1, rounded to "
             "multiples of A), 2^63, SIZE_MAX plus seeded random sets near the borders, each compared with a legality predicate written in the harness "
             "(128-bit product for the overflow) and with the model's Params.Legal: legal sets construct (a quarter of the small ones are then used), illegal "
             "ones throw invalid_argument / length_error, never call the manager and destroy the manager object they were given; MemPool() and "
             "MemPool(MemManager) with a default-constructible manager; const GetMemManager of both classes; MemPoolUInt32's constructor for blockCount in "
             "{1,2,3,64,2^20,2^61,2^62+1} x block sizes around SIZE_MAX/blockCount (length_error exactly when blockCount*max(blockSize,4) exceeds SIZE_MAX, "
             "nothing allocated, manager destroyed). distinct_nontrivial there = distinct scenarios / parameter sets."),
    "runtime_only": [
        "pool code never touches a live block or memory it does not own: ASan poisoning of all live blocks and of the whole arena outside "
        "outstanding allocations while pool code runs, canary bytes outside allocations, pattern bytes inside live blocks",
        "no undefined behaviour in the address arithmetic (UBSan)",
    ],
    "not_modelled": [
        "one combined pointer-level state machine: the list operations are proved pointer-correct one by one (C09_mergeFrom_dll, C09_list_ops_dll), "
        "the reads and walks of the traversals, DeallocateAll's two loops and DeallocateIf's two loops with abstract sweeps are proved pointer-correct "
        "(C09_traversal_ptr, C09_deallocateAll_ptr, C09_deallocateIf_traversal_ptr); the composition of a sweep's block-level work (pvDeleteBlocks) "
        "with its list surgery inside one pointer-level DeallocateIf is not a single theorem",
        "the use of MemPool inside TreeNode.h / BucketUtility.h and of MemPoolUInt32 inside HashBucketLim4.h (covered through the containers by C01/C02/C03)",
        "MemPoolUInt32: the contents of the buffer array's storage (the pointers) are abstract (a list); that the storage does not overlap a buffer is "
        "the manager's contract and is checked at run time only; 32-bit truncation of indices is modelled (w32) and proved absent under the "
        "constructor's assertion maxTotalBlockCount < 2^32-1",
        "world model: `Params` of MemPoolParamsStatic (no run-time fields) and managers whose moved-from state is still usable; self-swap and "
        "self-move-assignment (the harness does not perform them); memory managers that compare equal but are distinct objects with different "
        "lifetimes (the situation of finding F26) are represented by one identity",
        "MergeFrom(self), the refused MergeFrom (MOMO_CHECKs 387-390 under CheckMode::exception) and the outcome of pvCheckParams / of MemPoolUInt32's "
        "constructor are statements of the model DRIVER (ops mergex / params / ctor: identity on the state, Params.Legal plus the overflow test against "
        "SIZE_MAX) and of the harness oracle; they are not operations of the histories the theorems quantify over",
    ],
}
