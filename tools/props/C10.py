"""Registry entry of property C10 (bulk operations, merge/extract conservation)."""

PROP = {
    "id": "C10",
    "level": "proof",
    "technique": "Lean 4 proof (conservation of items as list permutations through merge / remove-if / extract in the hash-table model) + k-th-failure sweeps of bulk operations and merges on the real containers",
    "level_text": ("Kernel-checked theorems over the hash-table model for every bucket kind, hash function and number of coexisting generations: "
                   "MergeTo conserves src + dst as a multiset, leaves exactly the refused elements in the source, keeps destination keys distinct and "
                   "both tables valid; Remove(pred) removes exactly the selected elements; extraction transfers exactly one element. On the real "
                   "containers every bulk operation (range insert, remove-if, positional array insert/remove, merges hash<->hash, tree<->tree, "
                   "tree<->hash, extract + re-insert) is run with the k-th allocation / element copy / functor call failing for every k, checking "
                   "validity, subset, uniqueness, conservation, 'refused stays in the handle/source' and that movable elements are never copied."),
    "level_note": ("Partial: merges involving a B-tree and the fault behaviour inside a merge are covered by the sweeps (and C02's model for the "
                   "fault-free tree merge), not by a theorem with faults; the model's mergeTo has no fault argument. Trusted: Lean kernel + standard "
                   "axioms, harness (g++, ASan/UBSan)."),
    "modules": ["Momo.Props.C10"],
    "theorems": [
        "Momo.HT.C10_merge_conserves",
        "Momo.HT.C10_merge_refused_stay",
        "Momo.HT.C10_removePred_exact",
        "Momo.HT.C10_extract_transfers",
    ],
    "harnesses": [
        {"name": "c10_bulk", "src": "c10_bulk.cpp", "sanitize": "asan", "timeout_quick": 600},
        {"name": "c10_merge_model", "src": "c01_hash.cpp", "flags": ["-DVF_PART=0"]},
    ],
    "rule": ("sweeps: Insert(range of 17) and Remove(pred) on HashSet (LimP4, Open8) and TreeSet (node capacity 4, 32) of nothrow-move and copy-only "
             "elements at sizes 0, 5, 23; positional Insert (1, n copies, range) and Remove on Array / SegmentedArray at sizes 0, 4, 9; MergeTo for 8 "
             "source/destination combinations x 4 key patterns (ordered before / after, interleaved with common keys, empty destination); extract of a "
             "key absent / present in the destination followed by re-insertion - each with every k-th allocation, element copy and functor failure. "
             "Tree merges with a history (700 quick / 6000 thorough per tree type, node capacities 4/1, 4/2, 6/1 indexed, 32): one tree built ascending or shuffled, a burst of insertions next to the edge that faces the other tree, 0..maxR removals at that edge (drained edge leaves), the other tree of 1..6*maxN keys below or above, merge in either direction; conservation by identities, element-object count, order, no copies. "
             "Model level: the mergeto / rempred / ext / reins operations inside the C01 histories (chained-bucket part). "
             "distinct_nontrivial = distinct (operation instance, fault kind, k) that raised."),
    "runtime_only": ["ASan/UBSan", "memory-manager ledger and element counters after every case"],
    "not_modelled": ["faults inside a merge (sweeps only)", "stdish wrappers' element-wise migration between unequal allocators (C14 harness)"],
}
