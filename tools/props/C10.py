"""Registry entry of property C10 (bulk operations, merge/extract conservation)."""

PROP = {
    "id": "C10",
    "level": "proof",
    "technique": "Lean 4 proof (conservation of items as list permutations through merge / remove-if / extract in the hash-table model; B-tree range insert / remove-if / merge / extract / re-insert under every fault schedule) + k-th-failure sweeps of bulk operations and merges on the real containers",
    "level_text": ("Arrays: kernel-checked theorem over the fault-parametric model of momo::Array / ArrayShifter (Momo.ArrF): for every configuration, valid state, index, "
                   "count, range, value argument (incl. aliases) and every fault schedule, InsertVar / Insert (3 forms) / Remove (2 forms) either complete with the "
                   "fault-free state or throw leaving the representation invariant, count within capacity, exactly count constructed item objects, exactly the own "
                   "block outstanding, nothing destroyed or deallocated twice, and the count between the old and the intended one; the same for SegmentedArray "
                   "(InsertVar, Insert n copies / range, Remove 2 forms; ledger = segments 0..segCount + the pointer-array block). "
                   "Kernel-checked theorems over the hash-table model for every bucket kind, hash function and number of coexisting generations: "
                   "MergeTo conserves src + dst as a multiset, leaves exactly the refused elements in the source, keeps destination keys distinct and "
                   "both tables valid; Remove(pred) removes exactly the selected elements; extraction transfers exactly one element. On the real "
                   "containers every bulk operation (range insert, remove-if, positional array insert/remove, merges hash<->hash, tree<->tree, "
                   "tree<->hash, extract + re-insert) is run with the k-th allocation / element copy / functor call failing for every k, checking "
                   "validity, subset, uniqueness, conservation, 'refused stays in the handle/source' and that movable elements are never copied. "
                   "B-trees (Momo.BTreeF, the fault layer of C04 on the C02 model): for every well-formed sorted TreeSet / TreeMap, node capacity, item category (outside "
                   "documented exception 5) and EVERY fault schedule: Insert(range) ends as the fault-free Insert of a prefix of the range, node for node (hence valid, sorted, "
                   "unique keys unique, old elements kept, only range elements added); Remove(filter) ends valid and sorted with a sub-sequence that still has every element "
                   "not satisfying the filter; MergeTo by every path (swap into empty, pvMergeFast with roll-back of its wrappers, pvMergeTo, pvMergeToLinear, non-empty "
                   "traits) leaves at every stopping point both trees valid and sorted with source + destination a permutation of what they held, the source only losing "
                   "and the destination only gaining elements, and equals the reference merge when nothing was thrown; extraction and node re-insertion move the element "
                   "(item count of the ledger unchanged), a refused or failed re-insertion leaves the tree as it was; in all cases the ledger of live nodes / items / blocks "
                   "moved exactly with what the containers own. Tied to the code by the c04_treefault correspondence (complete contents, node shapes and ledger after "
                   "every faulted bulk operation and merge)."),
    "level_note": ("Partial: merges between a B-tree and a hash table and the fault behaviour inside a hash-table merge are covered by the sweeps, not by a "
                   "theorem with faults (the hash model's mergeTo has no fault argument); tree<->tree merges under faults are proved (Momo.BTreeF). Trusted: Lean kernel + standard "
                   "axioms, harness (g++, ASan/UBSan)."),
    "modules": ["Momo.Props.C10"],
    "theorems": [
        "Momo.HT.C10_merge_conserves",
        "Momo.HT.C10_merge_refused_stay",
        "Momo.HT.C10_removePred_exact",
        "Momo.HT.C10_extract_transfers",
        "Momo.ArrF.C10_array_basic_every_fault",
        "Momo.ArrF.C10_array_valid_means",
        "Momo.ArrF.C10_shifter_stops_after_prefix",
        "Momo.ArrF.C10_shifter_programs_are_the_loops",
        "Momo.ArrF.Seg.C10_segarray_basic_every_fault",
        "Momo.BTreeF.C10_tree_insertRange_basic",
        "Momo.BTreeF.C10_tree_removeIf_basic",
        "Momo.BTreeF.C10_tree_merge_conserves",
        "Momo.BTreeF.C10_tree_extract_transfers",
        "Momo.BTreeF.C10_tree_reinsert_refused_stays",
    ],
    "harnesses": [
        {"name": "c10_bulk", "src": "c10_bulk.cpp", "sanitize": "asan", "timeout_quick": 600},
        {"name": "c10_merge_model", "src": "c01_hash.cpp", "flags": ["-DVF_PART=0"]},
        {"name": "c10_arrfault_2", "src": "c04_arrfault.cpp", "sanitize": "asan", "flags": ["-DAF_PART=2"], "timeout_quick": 600},
        {"name": "c10_arrfault_3", "src": "c04_arrfault.cpp", "sanitize": "asan", "flags": ["-DAF_PART=3"], "timeout_quick": 600},
        {"name": "c10_arrfault_4", "src": "c04_arrfault.cpp", "sanitize": "asan", "flags": ["-DAF_PART=4"], "timeout_quick": 600},
        {"name": "c10_arrfault_6", "src": "c04_arrfault.cpp", "sanitize": "asan", "flags": ["-DAF_PART=6"], "timeout_quick": 600},
        {"name": "c10_segfault_2", "src": "c04_segfault.cpp", "sanitize": "asan", "flags": ["-DSF_PART=2"], "timeout_quick": 600},
        {"name": "c10_segfault_3", "src": "c04_segfault.cpp", "sanitize": "asan", "flags": ["-DSF_PART=3"], "timeout_quick": 600},
    ] + [
        {"name": "c10_treefault_%d" % k, "src": "c04_treefault.cpp", "sanitize": "asan", "flags": ["-DTF_PART=%d" % k], "timeout_quick": 600}
        for k in range(1, 7)
    ] + [
        # HashMap / TreeMap for every combination of key and value relocation categories (part = key category); see C04 rule (g)
        {"name": "c10_mapcat_%d" % k, "src": "c10_mapcat.cpp", "sanitize": "asan", "flags": ["-DMC_PART=%d" % k, "-O0"], "timeout_quick": 600, "timeout_thorough": 3000}
        for k in range(1, 5)
    ],
    "rule": ("sweeps: Insert(range of 17) and Remove(pred) on HashSet (LimP4, Open8) and TreeSet (node capacity 4, 32) of nothrow-move and copy-only "
             "elements at sizes 0, 5, 23; positional Insert (1, n copies, range) and Remove on Array / SegmentedArray at sizes 0, 4, 9; MergeTo for 8 "
             "source/destination combinations x 4 key patterns (ordered before / after, interleaved with common keys, empty destination); extract of a "
             "key absent / present in the destination followed by re-insertion - each with every k-th allocation, element copy and functor failure. "
             "Tree merges with a history (700 quick / 6000 thorough per tree type, node capacities 4/1, 4/2, 6/1 indexed, 32): one tree built ascending or shuffled, a burst of insertions next to the edge that faces the other tree, 0..maxR removals at that edge (drained edge leaves), the other tree of 1..6*maxN keys below or above, merge in either direction; conservation by identities, element-object count, order, no copies. "
             "Model level: the mergeto / rempred / ext / reins operations inside the C01 histories (chained-bucket part). "
             "Arrays, model level (c04_arrfault parts 2-4 and 6, c04_segfault parts 2-3; part 6 / 3: items that are not nothrow-movable but nothrow-swappable; engine arrfault; see C04's rule (c)): InsertVar / Insert(Item&&) / Insert(n copies) / Insert(range) / "
             "Remove(index,count) / Remove(filter) on Array / ArrayIntCap<2> of nothrow-move and copy-only items with and without throwing assignment, k-th fallible "
             "step (allocation, copy, copy-only move, assignment) failing; the model predicts the complete state incl. the moved-from pattern - exact, because the "
             "harness's item types leave their operands untouched when they throw; for other item types only count, validity and the ledger are determined (theorem). "
             "B-trees, model level (c04_treefault, engine btreefault; see C04's rule (d)): range insert, remove-if and merge (random pairs of the containers, ordered "
             "ranges above all keys for the fast paths, empty destinations) run with one random (fault kind, k); the model predicts threw, counts, complete contents and "
             "node shapes of both containers and the ledger; the property's own oracle (sorted, unique, sub-multiset, conservation of source + destination + handle, "
             "nothing lost from the destination, nothing gained by the source, element-object count) runs beside it. "
             "Maps, all key x value categories (c10_mapcat, see C04 rule (g)): extraction of every pair (leaf and internal tree items, hash items that are not the last of their bucket), "
             "node-handle move, ExtractedPair::Remove, re-insertion into a map with / without the key, MergeTo / MergeFrom within and across the families, each under every k-th copy / assignment / "
             "allocation / functor failure: the pair (key AND value, compared with the reference) lives in exactly one of source, handle, destination; element objects alive = expected. "
             "c04_treefault part 6 adds copy-only items with noexcept swap (contiguous nodes) to the model-level tree histories. "
             "distinct_nontrivial = distinct (operation instance, fault kind, k) that raised."),
    "runtime_only": ["ASan/UBSan", "memory-manager ledger and element counters after every case"],
    "not_modelled": ["arrays: throwing item filters; Insert for input iterators",
                     "faults inside a hash-table merge and in merges between a B-tree and a hash table (sweeps only)", "B-trees: see C04 (Momo.BTreeF) - pools behind Node::Create, Remove(range) / multi-key Remove(key) under faults, documented exception 5 excluded from the bulk theorems", "stdish wrappers' element-wise migration between unequal allocators (C14 harness)"],
}
