"""Registry entry of property C07 (DataTable queries equal a brute-force scan; unique indexes are never violated)."""

PROP = {
    "id": "C07",
    "level": "proof",
    "technique": "Lean 4 proof (index invariant by induction over operations, refinement of every query to a scan of the row list) + state-machine correspondence on rows, row numbers and the complete content of every index hash table",
    "level_text": ("Kernel-checked theorems over an executable model of DataTable + DataIndexes (UniqueHash, MultiHash with its sorted "
                   "64/128/256-row segments, AddRaw/RemoveRaw/UpdateRaw (both forms) with their reject/accept phases and a fault point in every index, "
                   "FilterRaws, pvAddHashIndex, pvFill, index selection of Select, FindBy*Hash). Proved: an index invariant Inv (unique index = exactly the rows, "
                   "each under the hash code of its current key, no two rows equal on its columns; multi index = partition of the rows into groups of equal "
                   "keys, full segments sorted; distinct raws and addresses; row numbers = positions) holds for the empty table and is kept by EVERY operation "
                   "of the model: TryAdd, TryInsert, TryUpdate(row), extract by number (ordered / unordered) and by reference, Remove(range), Remove(filter), "
                   "Assign, Clear, copy constructor, AddUniqueHashIndex / AddMultiHashIndex on a table with data, index removal, for every fault position; "
                   "each of these theorems also states the resulting row list explicitly (the row-list specification), that refused (dup) and failed "
                   "(bad_alloc) operations leave the table unchanged, and that the conflicting row and the first conflicting index are reported. Under Inv "
                   "every query (Select / SelectCount for every admissible index choice and any number of equalities + filter, FindByUniqueHash, "
                   "FindByMultiHash incl. absent values, Project, ProjectDistinct = first occurrences) equals the brute-force scan. C07_history_partial composes this by induction over arbitrary "
                   "operation lists from the empty table. The hash tables behind the indexes are abstracted to their C01/C13 contract (a lookup examines "
                   "every entry inserted under the hash code searched, in any order, possibly others): hash function, visiting order, row addresses and "
                   "fault positions are universally quantified. The model is run against the real DataTable (dynamic and static column lists, "
                   "with and without row numbers) on every check and must reproduce every answer, the rows, the row numbers and the exact "
                   "content and raw order of every index."),
    "level_note": ("Partial: (1) the single-column update (C07_updateCol_partial) and therefore the history theorem (C07_history_partial) are proved only "
                   "under the hypothesis the proof forces, NoF9 (in every index over the column in which the update adds an entry, the following lookup "
                   "of the raw's old key does not return the entry just added); the full statements are kept as defs C07_updateCol_correct / "
                   "C07_history_full and are proved FALSE for the model (open finding F9) by C07_updateCol_F9_witness / C07_history_F9 (4-bucket table, "
                   "one row: the update answers ok, then FindByUniqueHash misses the row). (2) Select / FindByMultiHash through a multi index are equal "
                   "to the scan as multisets (Perm), through a unique index or a full scan as lists. (3) The row-list refinement is stated per operation "
                   "(each C07_<op> gives the new row list); no separate abstract reference machine is defined, the history theorem carries the invariant, "
                   "uniqueness, row numbers and the query equalities. (4) NOT claimed by a theorem (run-time comparison with the model and a brute-force "
                   "oracle only): Selection Sort / Group / GetLowerBound / GetUpperBound (in the model these are the specification of std::sort / binary search itself), and the dup-reporting clause 'first "
                   "conflicting index' for the single-column update. Hypotheses of the theorems: new raws have an identity and an address no current row "
                   "has, index columns are pairwise distinct, updated column exists in the row, AccumulateHashCode is order-independent (AccComm) for "
                   "queries by key tuple, copies import rows that differ pairwise on every unique index (proved for rows taken from a table). "
                   "Trusted: Lean kernel + 3 standard axioms, extractor, harness (g++, -fno-access-control). Modelled not verified: the index "
                   "hash tables themselves (C01/C13/C08 contracts), std::lower_bound / RadixSorter / std::sort (specifications), raw memory of rows. "
                   "(5) Finding F9 itself is a theorem-level statement in a refined, bucket-level model of ONE unique hash index (Momo.TIdx, "
                   "Model/TableIdx.lean: the C01 hash table HT.Table holding (entry, raw) pairs, lookups = first examined position whose stored short hash "
                   "and whose raw's current values match, UpdateRaw's steps Add(hashMixedKey) / PrepareRemove / assign / AcceptAdd / AcceptRemove in their order; "
                   "any bucket description with SpecOK, any hash function, any fault value that lets the update complete): C07_updcol_correct_iff (the update "
                   "keeps the index invariant IFF PrepareRemove did not settle on the entry just added or the two hash codes are equal; it settles on it IFF "
                   "the decidable layout condition f9cond holds: new entry examined before the old one on the old key's probe path and equal short hashes), "
                   "C07_updcol_safe_when_paths_disjoint (sufficient condition for correctness, so another failure of this path is distinguishable), "
                   "C07_updcol_stale_state (the stale state exactly + frame: same entries under their former hash codes, all other rows still found, the row "
                   "found under its new key only when its old entry accidentally passes for it), C07_updcol_F9_witness (4-bucket replay, kernel-evaluated). "
                   "This model is run against the real HashSet<Raw*> of the unique index for every successful single-column update of a uniquely indexed column "
                   "(suite <part>_idx, engine tableidx: bucket layout before the update in, reachability of the row + layout checksum after it out). "
                   "The multi-hash index is not modelled at bucket level; only BucketOpen2N2<3, part getter> (the default of DataTraits) is tied at run time."),
    "modules": ["Momo.Props.C07"],
    "theorems": ["Momo.Table.C07_select_eq_scan", "Momo.Table.C07_select_any_index", "Momo.Table.C07_choosePath_valid", "Momo.Table.C07_findByUnique_eq_scan", "Momo.Table.C07_findByMulti_eq_scan", "Momo.Table.C07_project", "Momo.Table.C07_projectDistinct", "Momo.Table.C07_add", "Momo.Table.C07_add_ok_iff", "Momo.Table.C07_clear", "Momo.Table.C07_insert", "Momo.Table.C07_extract", "Momo.Table.C07_extractRef", "Momo.Table.C07_removeRows", "Momo.Table.C07_removePred", "Momo.Table.C07_assign", "Momo.Table.C07_copy", "Momo.Table.C07_rows_distinct", "Momo.Table.C07_createUnique", "Momo.Table.C07_createMulti", "Momo.Table.C07_numbers_eq_positions", "Momo.Table.C07_update", "Momo.Table.C07_updateCol_partial", "Momo.Table.C07_updateCol_F9_witness", "Momo.Table.C07_history_partial", "Momo.Table.C07_step_inv", "Momo.Table.C07_history_F9", "Momo.TIdx.C07_updcol_correct_iff", "Momo.TIdx.C07_updcol_F9_witness", "Momo.TIdx.C07_updcol_safe_when_paths_disjoint", "Momo.TIdx.C07_updcol_stale_state"],
    "harnesses": [
        {"name": "c07_dyn_nonum", "src": "c07_table.cpp", "flags": ["-DVF_PART=0", "-g0"]},
        {"name": "c07_dyn_num", "src": "c07_table.cpp", "flags": ["-DVF_PART=1", "-g0"]},
        {"name": "c07_sta_nonum", "src": "c07_table.cpp", "flags": ["-DVF_PART=2", "-g0"]},
        {"name": "c07_sta_num", "src": "c07_table.cpp", "flags": ["-DVF_PART=3", "-g0"]},
    ],
    "rule": ("4 table types (dynamic / static column list x keepRowNumber off / on; selectEqualityMaxCount 6, 1, 2, 6) x all 16 subsets of "
             "{unique(a,b), multi(a), multi(b), multi(s,a)} x 3 histories (9 thorough): indexes created before the data, after the data, mixed; "
             "sizes small (<= 80 rows), medium, big (> 330 rows, 60 % of them with the same a: > 64 and > 192 rows per key); hash family of "
             "DataTraits::AccumulateHashCode drawn from {4 values, identity, constant, high byte, multiplicative}; 120 (260) random operations "
             "after the bulk load (add, insert, update row, update column, remove by number / reference / range / predicate, extract + re-add, "
             "assign, clear, copy with and without filter, index creation and removal) plus directed adds at segment boundaries; every add / "
             "insert / update is also run with each allocation failing in turn (small tables always, big ones 1 in 5). After every operation: "
             "rows, row numbers, index contents against the shadow list (property level) and against the model (model level), then 2-3 queries "
             "(Select / SelectCount with 15 ordered column combinations, present and absent values, filters; FindByUniqueHash / "
             "FindByMultiHash with explicit and implicit index; Project / ProjectDistinct; Selection Sort / Group / GetLowerBound / "
             "GetUpperBound) against a brute-force scan. distinct_nontrivial = distinct (history, query columns, filter kind, result size) "
             "and (history, operation, failing allocation number). Every entry point is reached through each of its spellings, chosen at random per "
             "call (same model line, same oracle): rows made by NewRow() + operator[], NewRow(assignments...) with an item argument that is converted, "
             "NewRow(const Row&); Add / TryAdd / AddRow / TryAddRow, Insert / TryInsert / InsertRow / TryInsertRow, Update / TryUpdate(row), the four "
             "single-column overloads (Update / TryUpdate x Item&& / const Item&: the throwing ones answer through UniqueIndexViolation; the F9 "
             "recognition follows all four), writes through a mutable column (GetMutable of operator[] and of MakeMutableReference; model line = update "
             "of a column no index uses); Select / SelectCount / FindByUniqueHash / FindByMultiHash as Equalities<...>, as Equality<Item>... and as "
             "(column == item) && ..., through the table and through a const reference (ConstSelection, ConstRowHashPointer, ConstRowHashBounds), "
             "FindByUniqueHash(index, const Row&) with a detached row, Project / ProjectDistinct with and without filter, GetUniqueHashIndex / "
             "GetMultiHashIndex(columns...) against the list of created indexes, lookups by a column set without index (std::logic_error, model "
             "E:logic). Fault paths beyond allocation failures of add / insert / update: every tick of DataTraits::AccumulateHashCode / IsEqual "
             "inside Remove / Extract throwing in turn (first 12 + 2 random: reject path of DataIndexes::RemoveRaw), a row filter of Remove(filter) "
             "throwing at a random call and the allocations of its raw set failing, a throwing item conversion in NewRow(assignments...), every "
             "allocation of a table copy (copy constructor with and without filter, DataTable(Selection), DataTable(ConstSelection)) failing in turn "
             "(all of them for tables <= 80 rows, 8 random ones otherwise), allocation failures inside Project / ProjectDistinct, Selection::Group "
             "without its hash-code array: each must throw (Group: succeed), leave rows, row numbers and every index as they were with no pending "
             "add / remove position (shadow list + model chk line) and nothing allocated. Selections (property level, oracle = the same operation "
             "on the list of row ids): Reverse, Sort(lessFunc) + BinarySearch, filtered copy, Remove(filter), copy / move assignment, Swap, Clear, "
             "Reserve, SelectEmpty, range Add / Insert / Assign, GetColumnItems (DataConstItemBounds / Iterator arithmetic), iterator arithmetic of "
             "selection and table, DataTable(Selection / ConstSelection), conversion to ConstSelection and Sort / bounds on it, rvalue Sort / Group."),
    "runtime_only": ["allocation ledger of the arena memory manager: nothing left allocated / no bad deallocation after each history (C03 piggyback)"],
    "not_modelled": ["bucket layout of the multi-hash index tables (HashMultiMap<Raw*,Raw*>) and, in the table-level model `table`, of the unique ones: abstracted to "
                     "'a lookup visits every entry inserted under that hash code'; the table-level model therefore does not predict when finding F9 strikes - the "
                     "harness recognises the pattern, reports known-F9 and rebuilds the table; for unique indexes the bucket-level model `tableidx` predicts it "
                     "(row reachable under its new key or not, layout checksum) from the layout before the update and is compared on every such update",
                     "order of rows with equal keys after Selection::Sort / inside Group (std::sort / HashSorter: C17)",
                     "Reserve, capacity of mRaws, version counters (C15), DataRow life cycle (C19)",
                     "selection objects (Reverse, Sort(lessFunc), BinarySearch, Remove(filter), range Add / Insert / Assign, copies, DataTable(Selection)), "
                     "throwing hash / filter / item conversion and failed copies: property level only (the model line after each failed operation is `chk`: "
                     "state unchanged)"],
}
