"""Registry entry of property C05 (see tools/registry.py)."""

_ASAN_O0 = {"sanitize": "asan", "flags": ["-O0"], "timeout_quick": 300, "timeout_thorough": 1800}

PROP = {
    "id": "C05",
    "level": "proof",
    "technique": ("Lean 4 proof: executable model of ArrayShifter / Array::Data / SegmentedArray with live|moved cells and reference "
                  "arguments that are re-read whenever the C++ dereferences them; every loop described pointwise by induction over its "
                  "fuel; refinement of a List specification for every operation and every history; state-machine correspondence with "
                  "the real containers against std::vector"),
    "level_text": ("Kernel-checked theorems, no size bound: (A) the four ArrayShifter functions, on arbitrary cells (live or moved-from), "
                   "insert/remove exactly the requested cells for every index, every count including 0 and value arguments inside or "
                   "outside the array; (B) every operation of Array/ArrayIntCap (= stdish::vector/vector_intcap) refines the reference "
                   "sequence for every configuration (destructive or copying move, nothrow-relocatable or not, nothrow-move or not, any "
                   "internal capacity, manager with/without Reallocate/ReallocateInplace and any answer of the latter) and every aliasing "
                   "argument (element j, any j), keeps the invariant of Array::Data (so the capacity always suffices), hence every history "
                   "does; empty ranges leave the whole state untouched; rvalue arguments that are elements leave exactly one cell "
                   "'left behind'; copy/move/swap; (C) the same for SegmentedArray with both sizings and every logInitialItemCount; "
                   "reserve clause for both families: after Reserve(n) no memory-manager call while the size stays <= n. The model is "
                   "executable and compared with the real containers on every run: size, capacity, every cell (moved-from cells "
                   "included) and every memory-manager call of every operation; growth constants are re-extracted from Array.h."
                   " ArraySettings::GrowCapacity is additionally TRANSLATED from the header text on every run (tools/translate.py) and proved equal to the model's growth rule for capacities < 2^62 (C05_growCapacity_translated)."
                   " Second wave (tools/trspecs/Wave2.py, Proof/TrEqWave2Arr.lean): Data::GetCapacity, the three tests of Data::Reallocate, the heap test of Data::Reset, "
                   "the tests of Reserve / Shrink(capacity) and the shrink target are translated and proved equal to the tests of the model (C05_capacity_tests_translated)."),
    "level_note": ("Trusted: Lean kernel, the three standard axioms, extractor, correspondence harness (g++ -O0, ASan+UBSan, "
                   "-fno-access-control). Modelled not verified: object lifetime inside raw storage (construct/destroy/relocate are "
                   "cell moves; double destroy, leaks and reads of dead items are runtime evidence from ASan only), size_t overflow of "
                   "capacities (bad_array_new_length / length_error paths), exceptions thrown by item operations (C04's subject). The "
                   "SegmentedArray reserve theorem uses the index-arithmetic laws proved for C16 (Momo/Proof/SegIdeal.lean)."),
    "modules": ["Momo.Props.C05"],
    "theorems": [
        "Momo.Arr.C05_shifter_insert_n",
        "Momo.Arr.C05_shifter_insert_range",
        "Momo.Arr.C05_shifter_remove",
        "Momo.Arr.C05_shifter_remove_if",
        "Momo.Arr.C05_array_step_refines",
        "Momo.Arr.C05_array_history",
        "Momo.Arr.C05_array_empty_ranges",
        "Momo.Arr.C05_array_insert_moved_element",
        "Momo.Arr.C05_array_emplace_moved_element",
        "Momo.Arr.C05_array_append_moved_element",
        "Momo.Arr.C05_array_copy_move_swap",
        "Momo.Arr.C05_growCapacity_ge",
        "Momo.Arr.C05_array_reserve_no_alloc",
        "Momo.Arr.C05_segarray_step_refines",
        "Momo.Arr.C05_segarray_history",
        "Momo.Arr.C05_segarray_capacity_suffices",
        "Momo.Arr.C05_segarray_reserve_no_alloc",
        "Momo.Arr.C05_growCapacity_translated",
        "Momo.Arr.C05_capacity_tests_translated",
    ],
    "harnesses": [
        dict(_ASAN_O0, name="c05_array_1", src="c05_array.cpp", flags=["-O0", "-DC05_PART=1"]),
        dict(_ASAN_O0, name="c05_array_2", src="c05_array.cpp", flags=["-O0", "-DC05_PART=2"]),
        dict(_ASAN_O0, name="c05_segarray_1", src="c05_segarray.cpp", flags=["-O0", "-DC05_PART=1"]),
        dict(_ASAN_O0, name="c05_segarray_2", src="c05_segarray.cpp", flags=["-O0", "-DC05_PART=2"]),
        dict(_ASAN_O0, name="c05_array_3", src="c05_array.cpp", flags=["-O0", "-DC05_PART=3"]),
        dict(_ASAN_O0, name="c05_segarray_3", src="c05_segarray.cpp", flags=["-O0", "-DC05_PART=3"]),
        dict(_ASAN_O0, name="c05_vector_1", src="c05_vector.cpp", flags=["-O0", "-DC05_PART=1"]),
        dict(_ASAN_O0, name="c05_vector_2", src="c05_vector.cpp", flags=["-O0", "-DC05_PART=2"]),
    ],
    "rule": ("49 configurations, one correspondence suite each: Array/ArrayIntCap<1..5> (17: std::string short+long with internal capacity "
             "0..5; trivially relocatable struct under managers with Reallocate / ReallocateInplace / both / neither; nothrow-move, "
             "throwing-move and copy-only classes that own memory), SegmentedArray (19: cnst and sqrt, logInitialItemCount 0..5 with "
             "std::string, plus the other item types and managers), stdish::vector/vector_intcap<1..5> through the std interface (13). Per "
             "configuration rounds of random operations on three objects: push_back/AddBack (copy, move), emplace_back, emplace, insert "
             "(one value copy/move, n copies with n in 0..5 and occasionally up to 70, forward range, initializer list, input range; lengths "
             "0..5), pop, erase (one, range, empty range), erase_if, resize (default/value, both directions), reserve, shrink, clear, "
             "assign (n copies, range, initializer list), element assignment, copy/move construction and assignment, swap, destruction. "
             "Three quarters of the value arguments alias an element of the same container: index-1, index, index+1, first, last, random. "
             "Every 4th round lets the size pass the growth thresholds (2, 64, 150). Each round ends with a directed reserve scenario: "
             "reserve(n), then grow to exactly n with every kind of growing operation. After every operation: size, capacity, all cells "
             "and all memory-manager calls are compared with the model; all elements with a std::vector that received the same "
             "operation. distinct_nontrivial counts distinct (configuration, operation shape = op line with numbers abstracted, "
             "allocated or not, min(size,8)) on non-empty containers. "
             "Added by the coverage round (54 configurations now: + Array, Array with ReallocateInplace manager, SegmentedArray sqrt/1 and "
             "cnst/2, stdish::vector of a 'not nothrow-movable but nothrow-swappable' item = copy-and-swap idiom without move constructor): "
             "objects are also created by (count) [value-initialised items; model: (count, Item())], (initializer_list, memManager / "
             "allocator), CreateCap(n) [model op newcap; the reserve clause holds from birth, every third directed reserve scenario starts "
             "from it] and CreateCrt(n, creator) [model op newcrt; property level: exactly n creator calls, the i-th with the address of "
             "element i]. Every round ends with an access scenario on two objects - IsEmpty, GetBackItem() const, a walk over non-const "
             "GetBegin()..GetEnd() with conversion to the const iterator and writes through the iterator (model op set), Contains(item, "
             "equalFunc) against std::any_of and IsEqual(array, equalFunc) against std::equal on the reference sequences with a call-counting "
             "functor (exact / modulo m; element, absent value, copy, one element replaced, one more, one less, both directions; default "
             "functor for std::string), then the model answers `get` (nothing changed) - and, for momo::Array, a capacity-overflow scenario "
             "on an empty and a non-empty object: Reserve / SetCount(n) / SetCount(n, item) / CreateCap / CreateCrt / (count) / (count, item) "
             "with n * sizeof(Item) > SIZE_MAX must throw std::bad_array_new_length before any memory-manager call and leave count, "
             "capacity and cells as they were (model: `get`). c05_segarray_3 adds a directed property-level scenario for "
             "SegmentedArray::pvAllocateSegment's std::length_error: 4 KiB items with logInitialItemCount 50 (sqrt; segment 4 would need "
             "2^64 bytes) and 52 (cnst; no segment fits) over a ledger memory manager that really allocates at most 64 KiB per block: "
             "Reserve / SetCount / CreateCap / CreateCrt / (count) / (count, item) / AddBack / Insert beyond the representable capacity "
             "throw std::length_error, contents, count and capacity unchanged, outstanding blocks = blocks the container owns, the "
             "container usable afterwards (AddBack, RemoveBack, assignment, Reserve up to the last representable capacity, Shrink)."),
    "runtime_only": ["double destruction / leak / use of a destroyed item inside raw storage (ASan, items own heap memory)",
                     "no live block of the logging memory manager remains after every object was destroyed"],
    "not_modelled": ["exceptions from item constructors/assignments and from the memory manager (strong/basic guarantees are C04)",
                     "size_t overflow of capacities: the length_error / bad_array_new_length paths are checked at property level only (the model's capacities are unbounded naturals; it confirms the unchanged state with `get`)",
                     "allocator propagation and unequal allocators of stdish::vector (pvCreateArray's element-wise path) - C14",
                     "iterators returned by stdish::vector (C06) and iterator invalidation",
                     "Contains / IsEqual (property level only: std::any_of / std::equal on the reference sequence), comparison operators of stdish::vector"],
}
