"""Registry entry of property C18 (see tools/registry.py)."""

_PARTS = [{"name": "c18_columns_p%d" % k, "src": "c18_columns.cpp",
           # -O0 -g0 override the default -O1 -g: hundreds of Add<Item> instantiations per executable, compile time matters
           "flags": ["-O0", "-g0", "-DC18_PART=%d" % k], "timeout_quick": 600, "timeout_thorough": 2400} for k in range(6)]

# the same source under ASan+UBSan for one small and one large vertex count (typed item access, heap-owning items, row buffers of exactly
# GetTotalSize() bytes aligned to exactly GetAlignment(): an out-of-slot or misaligned access aborts the run)
_SAN = [{"name": "c18_columns_asan%d" % L, "src": "c18_columns.cpp", "sanitize": "asan",
         "flags": ["-O0", "-g0", "-DC18_SINGLE=%d" % L], "timeout_quick": 600, "timeout_thorough": 2400} for L in (5, 12)]

PROP = {
    "id": "C18",
    "level": "proof",
    "technique": ("Lean 4 proof (DFS soundness/termination by an invariant on the addends, state invariant by induction over Add histories, "
                  "event-trace lemmas for rows) + state-machine-level correspondence on the real DataColumnList with full internal state"),
    "level_text": ("Kernel-checked theorems for every logVertexCount >= 4, every history of Add calls (any codes incl. colliding and repeated ones, "
                   "any item sizes/alignments, any allocation fault per call, refused calls included) whose total requested bytes times 2^L+1 stay "
                   "below 2^63: a successful fill satisfies every old and new column (addend[v1]+addend[v2] = offset mod 2^64, addends non-zero), the DFS "
                   "terminates, offsets are aligned / inside the row / behind the row-number slot / pairwise disjoint / never change, lookups and Contains "
                   "return the recorded offset, Contains is true exactly for added codes, refused additions change nothing observable, duplicates are "
                   "always refused, CreateRaw/ImportRaw/DestroyRaw construct and destroy each item exactly once for every failure point. The executable "
                   "model is compared with the real class (mCodeParam, mAddends, offsets, function records, mutable bits, Contains of a 40-column "
                   "universe, row event traces) after every operation on every run; constants of GetVertices/pvAdd/StrHasher are re-extracted."
                   " Area Misc of the translator (tools/trspecs/Misc.py): DataColumnTraits::GetVertices, UIntMath::Ceil and the offset arithmetic of "
                   "pvAddEdges (Ceil + advance + max alignment), pvFillAddends (root addend), pvAdd (mutable-bit bytes), pvGetOffset (wrapping sum) and "
                   "maxColumnCount are TRANSLATED from the header text on every run and proved equal to the model functions (Proof/TrEqMisc2Col.lean; "
                   "C18_vertices_translated, C18_ceil_translated, C18_layout_step_translated, C18_lookup_translated)."
                   " Second wave (tools/trspecs/Wave2.py, Proof/TrEqWave2Col.lean): pvGetOffset is translated as a whole (both reads of mAddends at the vertices and the "
                   "wrapping sum) and proved equal to getOffsetWith (C18_getOffset_translated)."),
    "level_note": ("Trusted: Lean kernel, the three standard axioms, extractor, correspondence harness (g++, -fno-access-control). Modelled not verified: "
                   "item types enter only as (size, alignment); a column is identified with its code (two columns with equal codes are one column to the "
                   "list, as in the C++); offsets are naturals and the hypothesis Small excludes their 64-bit wrap (addends are computed mod 2^64 as in "
                   "the C++); allocation failures are a per-call parameter (before / while inserting the codes); the HashSet behind mColumnCodeSet is a list."),
    "modules": ["Momo.Props.C18"],
    "theorems": [
        "Momo.Col.C18_vertices",
        "Momo.Col.C18_fill_sound",
        "Momo.Col.C18_dfs_terminates",
        "Momo.Col.C18_offsets_ok",
        "Momo.Col.C18_offset_stable",
        "Momo.Col.C18_contains_iff_added",
        "Momo.Col.C18_add_refused_unchanged",
        "Momo.Col.C18_cannot_iff",
        "Momo.Col.C18_duplicate_refused",
        "Momo.Col.C18_edge_storage_fits",
        "Momo.Col.C18_codes_distinct",
        "Momo.Col.C18_alignment",
        "Momo.Col.C18_create_destroy_once",
        "Momo.Col.C18_import_source",
        "Momo.Col.C18_vertices_translated",
        "Momo.Col.C18_ceil_translated",
        "Momo.Col.C18_layout_step_translated",
        "Momo.Col.C18_lookup_translated",
        "Momo.Col.C18_getOffset_translated",
    ],
    "harnesses": _PARTS + _SAN,
    "rule": ("6 executables x 2 logVertexCount values (4..15) plus two ASan+UBSan executables (L=5, L=12); per value 5 suites: engineered uint64 codes without/with row number, string-hash codes "
             "(real StrHasher on generated names) with/without row number, member-offset codes (MOMO_DATA_COLUMN_STRUCT on a 40-member struct); universes "
             "of 40 columns with engineered collisions for code parameter 0 (reversed pairs, tie-break pairs, twins that can never coexist, triangles, "
             "squares, stars) verified with the real GetVertices; item types Blob<S,A> for every size 1..16 / alignment 1,2,4,8,16 plus std::string and "
             "three heap-owning / counted types in the two suites without row number (35 types), sub-menus of 10 / 14 types in the row-number and "
             "member-offset suites; a directed scenario builds a triangle whose offsets make the odd cycle consistent (must be accepted for "
             "parameter 0) and the same triangle in an inconsistent order (parameter must advance). Scenarios: every addition order of subsets of 3-5 columns; random orders of large subsets with "
             "multi-column Add calls (2-5 columns, mutable or not), repeated columns, allocation failure at the k-th allocation (k=1..6), copy/move "
             "construction of the list, CreateRaw/ImportRaw (same list and other lists with different column sets)/DestroyRaw with the k-th item "
             "construction throwing. After every operation the full state is compared with the model and the property is checked directly. "
             "evaluations = state comparisons + row operations; distinct_nontrivial = distinct (kind, L, ordered column sequence) of permutation "
             "families and of final random-run lists; function level: GetVertices for all 256 parameters of 400 (thorough 3000) codes per L, StrHasher on "
             "random byte strings."),
    "runtime_only": ["ASan+UBSan (L=5 and L=12 builds): every typed access to an item through GetByOffset<Item> lies inside a row buffer of exactly "
                     "GetTotalSize() bytes allocated with exactly GetAlignment(), and is aligned for the item type; no leak / double free of heap-owning items",
                     "typed access through GetByOffset<Item> and the real constructors/destructors of std::string and heap-owning items (a leak or double "
                     "destruction would also be caught by the instance ledger of the harness)"],
    "not_modelled": ["DataColumnListStatic / DataColumnListNative (the property is about the dynamic list)",
                     "VisitPointers, type_info bookkeeping, Assign/GetByOffset (typed access; exercised by the harness only)",
                     "which of Reserve/SetCount throws first (one fault class 'before the codes are inserted'); HashSet internals of mColumnCodeSet",
                     "ImportRaw between lists whose equal codes denote different item types (undefined in the C++, excluded by convention)",
                     "32-bit column codes (sizeof(ColumnCode) <= 4 is a model parameter without a correspondence run: both code types here are 8 bytes)"],
}
