"""Registry entry of property C04 (strong exception safety)."""

PROP = {
    "id": "C04",
    "level": "proof",
    "technique": "Lean 4 proof over a fault-parametric object life-cycle model (every fault schedule) + exhaustive k-th-failure sweeps of the real containers",
    "level_text": ("Kernel-checked theorems for every element count, relocation category and fault schedule: ObjectManager::RelocateCreate and CopyExec - the "
                   "primitives with which buckets, nodes and arrays grow - leave memory exactly unchanged when any copy or the creator throws, with a "
                   "well-formed construction/destruction trace; container-level strong guarantee of hash insert/reserve is proved in C11's theorems "
                   "(add/reserve with faults return the unchanged table). The model is compared with the real ObjectManager for every count 0..5 and "
                   "every failing step; every operation documented as strong is swept on the real containers: the k-th allocation, k-th element copy "
                   "and k-th hash/equality/ordering call fail for k = 0,1,2,... until the operation succeeds, state compared with a snapshot."),
    "level_note": ("Trusted: Lean kernel + standard axioms, harness (g++, ASan/UBSan, -fno-access-control). The sweep covers every k for each reached "
                   "operation instance, but the instances (container kind, size, element category) are a finite chosen set. Documented exceptions "
                   "(HashMap.h items 4, 5: Key&& argument may change; Remove/Extract with key and value both not nothrow-anyway-assignable) are "
                   "not exercised. The C++ rule that a delegating constructor's exception runs the destructor is relied on, not modelled."),
    "modules": ["Momo.Props.C04"],
    "theorems": [
        "Momo.Obj.C04_relocateCreate_strong",
        "Momo.Obj.C04_relocateCreate_ok",
        "Momo.Obj.C04_copyExec_strong",
    ],
    "harnesses": [
        {"name": "c04_strong", "src": "c04_strong.cpp", "sanitize": "asan", "timeout_quick": 600},
    ],
    "rule": ("(a) RelocateCreate on ElemNM (nothrow-move) and ElemCO (copy-only, throwing) for count 0..5 x every failing step (model-level lines); "
             "(b) sweeps: Array / ArrayIntCap<3> / SegmentedArray(sqrt, cnst) AddBack (const&, &&, aliasing own element), SetCount, Reserve, Shrink, "
             "copy-assignment at sizes 0,3,4,8,17; HashSet/HashMap (LimP4, Open8, One) Insert, Remove, Reserve, operator[], copy-assignment at sizes "
             "0,1,3,7,20; HashMultiMap Add (new / existing key); TreeSet/TreeMap (node capacity 1, 4, 32) Insert front/middle/back, Remove, "
             "operator[], copy-assignment at sizes 0,1,4,9,33; copy / init-list / (count,item) constructors - each with the k-th allocation, k-th "
             "element copy, k-th functor call failing for all k. distinct_nontrivial = distinct (operation instance, fault kind, k) that raised."),
    "runtime_only": ["ASan/UBSan on every sweep", "memory-manager ledger and element counters after every failure and after destruction"],
    "not_modelled": ["container-level strong guarantee of arrays and B-trees is stated in C05 / C02 models, not here"],
}
