"""Registry entry of property C04 (strong exception safety)."""

PROP = {
    "id": "C04",
    "level": "proof",
    "technique": "Lean 4 proof over fault-parametric models (object life cycle; momo::Array as written; momo::TreeSet / TreeMap with its Relocator as written; every fault schedule) + model-level correspondence of the array model and of the B-tree fault model with the real containers under injected faults + exhaustive k-th-failure sweeps of the real containers",
    "level_text": ("Arrays: kernel-checked theorem over a model of Array.h / ArrayUtility.h in which every Allocate / Reallocate, element construction and assignment "
                   "consumes a decision of an arbitrary fault schedule and exceptions unwind through the source's catch blocks and guards: for every configuration, "
                   "valid state (live or moved-from cells), argument (incl. aliases of own elements) and schedule, AddBack (3 forms), SetCount, Reserve, Shrink and copy "
                   "assignment either complete with the state of the fault-free model or throw with cells, capacity and the block / object ledger exactly as before; a "
                   "failing copy / (count,item) constructor leaves the ledger as it was. SegmentedArray (model of SegmentedArray.h over the same Array model for the "
                   "segment-pointer array, both sizings): AddBack, SetCount, Reserve complete with the fault-free state or throw with items and segments unchanged and an "
                   "exact ledger; Shrink never throws. The models are tied to the code by correspondence runs that predict the complete "
                   "state after every faulted operation. "
                   "Kernel-checked theorems for every element count, relocation category and fault schedule: ObjectManager::RelocateCreate and CopyExec - the "
                   "primitives with which buckets, nodes and arrays grow - leave memory exactly unchanged when any copy or the creator throws, with a "
                   "well-formed construction/destruction trace; container-level strong guarantee of hash insert/reserve is proved in C11's theorems "
                   "(add/reserve with faults return the unchanged table). The model is compared with the real ObjectManager for every count 0..5 and "
                   "every failing step; every operation documented as strong is swept on the real containers: the k-th allocation, k-th element copy "
                   "and k-th hash/equality/ordering call fail for k = 0,1,2,... until the operation succeeds, state compared with a snapshot. "
                   "B-trees (TreeSet / TreeMap): kernel-checked theorems over a fault-parametric layer on the C02 model (Momo.BTreeF) in which every IsLess call, every "
                   "MemManager::Allocate (node params, Node::Create, growth of the Relocator's four bookkeeping arrays, crew), every element construction (creator, copies "
                   "of a not-nothrow-relocatable relocation, copy into the node handle) and every assignment of Replace consults an arbitrary schedule and a ledger counts "
                   "live leaf / internal nodes, items, bookkeeping blocks, params and crews: for every well-formed tree, node capacity, key / iterator, item category and "
                   "schedule, a failing Insert / emplace / hinted Add / subscript insertion / Remove / Extract returns the very same tree with the ledger unchanged (only the "
                   "node-params block of a rootless container may have appeared), a later fault-free call behaves as on the original tree, a failing copy constructor "
                   "leaves the ledger as it was, and whatever sequence of CreateNode / AddSegment calls a Relocator executes, its destructor restores the ledger; a call that "
                   "returns is the fault-free model's result (also for node merges that pvRebalance's catch(...) swallowed: same sequence, well-formed). The documented "
                   "exception 5 (Remove with key and value both not nothrow-anyway-assignable) is a hypothesis of the removal theorem and a kernel-checked witness shows it is "
                   "needed. The layer is tied to the code by c04_treefault: the model predicts threw / result, complete contents, complete node shape and the ledger "
                   "(pool counters, element objects, memory-manager blocks) after every operation run with its k-th comparison / allocation / construction / assignment failing. "
                   "Hash family WITH the ledger (Momo.HTL, the ledger layer over the C01 / C11 model described under C03): for every bucket description, relocation "
                   "category, hash function, container state with well-formed books, item, creator and fault record, a failing Add / AddVar / AddCrt (C04_hash_add_strong), "
                   "Insert / emplace / map insertion / subscript insertion / Insert(ExtractedItem&&) incl. a throwing hash or equality functor in the lookup "
                   "(C04_hash_insert_strong), Remove (C04_hash_remove_strong: not a single event), Extract (C04_hash_extract_strong), Reserve (C04_hash_reserve_strong) returns "
                   "the SAME container - table, books of blocks and of element objects - and a ledger on which the verified monitor holds exactly the blocks and element "
                   "objects it held; a failing default / copy constructor leaves the ledger exactly as it was, an empty one empty (C04_hash_constructor_clean), a failing copy "
                   "assignment leaves both containers and the handle as they were (C04_hash_copy_assign_strong); after a failed insertion the books stay consistent with the "
                   "table and the same insertion retried without fault succeeds with the fault-free model's table (C04_hash_usable_after); the tables are those of C11's add / "
                   "reserve under the faults the record stands for (C04_hash_tables_are_model); the only manager blocks a failing operation may keep are pool buffers of the "
                   "chained kinds, booked as St.bufs and given back by Clear / destruction (C04_hash_pool_traffic); at the level of the system the harness drives (two "
                   "containers and a node handle, every reachable state: C04_hash_reachable_ok) a failing ins / rem / ext / reins / reserve / copyTo leaves both containers and "
                   "the handle exactly as they were (C04_hash_step_strong). Tied to the code by c03_htledger (see C03). "
                   "Hash multimap WITH the ledger (Momo.MML, the layer over the C08 model described under C03): Add(key, value), Add(keyIter, value), InsertKey, "
                   "Remove(keyIter, index), RemoveKey, the constructors and copy assignment, for every state, fault record (key-table faults, refused pool block, "
                   "refused heap storage, throwing value creator / copy / assignment, refused Array::Shrink - swallowed) and frame: a failure returns the very same "
                   "container (key table, every value array with its representation, every block and object on the books) and the monitor holds what it held "
                   "(C04_multimap_*_strong, C04_multimap_constructor_clean, C04_multimap_step_strong; Remove(pairFilter) is basic only: C04_multimap_usable_after). "
                   "Tied to the code by c03_mmledger (see C03)."),
    "level_note": ("Trusted: Lean kernel + standard axioms, harness (g++, ASan/UBSan, -fno-access-control). The sweep covers every k for each reached "
                   "operation instance, but the instances (container kind, size, element category) are a finite chosen set. Documented exceptions "
                   "(HashMap.h items 4, 5: Key&& argument may change; Remove/Extract with key and value both not nothrow-anyway-assignable) are "
                   "not exercised by the sweeps (item 5 is exercised at model level for TreeMap by c04_treefault, item 4 is not). The C++ rule that a delegating constructor's exception runs the destructor is relied on, not modelled."),
    "modules": ["Momo.Props.C04"],
    "theorems": [
        "Momo.Obj.C04_relocateCreate_strong",
        "Momo.Obj.C04_relocateCreate_ok",
        "Momo.Obj.C04_copyExec_strong",
        "Momo.ArrF.C04_array_strong_every_fault",
        "Momo.ArrF.C04_array_usable_after",
        "Momo.ArrF.C04_array_constructor_clean",
        "Momo.ArrF.C04_array_no_fault_completes",
        "Momo.ArrF.Seg.C04_segarray_strong_every_fault",
        "Momo.ArrF.Seg.C04_segarray_shrink_never_throws",
        "Momo.BTreeF.C04_tree_relocator_restores",
        "Momo.BTreeF.C04_tree_insert_strong",
        "Momo.BTreeF.C04_tree_add_strong",
        "Momo.BTreeF.C04_tree_remove_strong",
        "Momo.BTreeF.C04_tree_copy_strong",
        "Momo.BTreeF.C04_tree_usable_after",
        "Momo.HTL.C04_hash_add_strong",
        "Momo.HTL.C04_hash_insert_strong",
        "Momo.HTL.C04_hash_creators",
        "Momo.HTL.C04_hash_remove_strong",
        "Momo.HTL.C04_hash_extract_strong",
        "Momo.HTL.C04_hash_reserve_strong",
        "Momo.HTL.C04_hash_constructor_clean",
        "Momo.HTL.C04_hash_copy_assign_strong",
        "Momo.HTL.C04_hash_usable_after",
        "Momo.HTL.C04_hash_tables_are_model",
        "Momo.HTL.C04_hash_pool_traffic",
        "Momo.HTL.C04_hash_step_strong",
        "Momo.HTL.C04_hash_reachable_ok",
        "Momo.MML.C04_multimap_add_strong",
        "Momo.MML.C04_multimap_addAt_strong",
        "Momo.MML.C04_multimap_insertKey_strong",
        "Momo.MML.C04_multimap_remove_strong",
        "Momo.MML.C04_multimap_removeKey_strong",
        "Momo.MML.C04_multimap_constructor_clean",
        "Momo.MML.C04_multimap_step_strong",
        "Momo.MML.C04_multimap_usable_after",
        "Momo.MML.C04_multimap_reachable_ok",
        "Momo.MML.C04_multimap_fault_keeps_contents",
        "Momo.MML.C04_multimap_step_fault_keeps_contents",
    ],
    "harnesses": [
        {"name": "c04_strong", "src": "c04_strong.cpp", "sanitize": "asan", "timeout_quick": 600},
        {"name": "c04_arrfault_1", "src": "c04_arrfault.cpp", "sanitize": "asan", "flags": ["-DAF_PART=1"], "timeout_quick": 600},
        {"name": "c04_arrfault_2", "src": "c04_arrfault.cpp", "sanitize": "asan", "flags": ["-DAF_PART=2"], "timeout_quick": 600},
        {"name": "c04_arrfault_3", "src": "c04_arrfault.cpp", "sanitize": "asan", "flags": ["-DAF_PART=3"], "timeout_quick": 600},
        {"name": "c04_arrfault_4", "src": "c04_arrfault.cpp", "sanitize": "asan", "flags": ["-DAF_PART=4"], "timeout_quick": 600},
        {"name": "c04_arrfault_5", "src": "c04_arrfault.cpp", "sanitize": "asan", "flags": ["-DAF_PART=5"], "timeout_quick": 600},
        {"name": "c04_arrfault_6", "src": "c04_arrfault.cpp", "sanitize": "asan", "flags": ["-DAF_PART=6"], "timeout_quick": 600},
        {"name": "c04_segfault_1", "src": "c04_segfault.cpp", "sanitize": "asan", "flags": ["-DSF_PART=1"], "timeout_quick": 600},
        {"name": "c04_segfault_2", "src": "c04_segfault.cpp", "sanitize": "asan", "flags": ["-DSF_PART=2"], "timeout_quick": 600},
        {"name": "c04_segfault_3", "src": "c04_segfault.cpp", "sanitize": "asan", "flags": ["-DSF_PART=3"], "timeout_quick": 600},
    ] + [
        {"name": "c04_treefault_%d" % k, "src": "c04_treefault.cpp", "sanitize": "asan", "flags": ["-DTF_PART=%d" % k], "timeout_quick": 600}
        for k in range(1, 7)
    ] + [
        # element / parameter categories that c04_strong lacks: copy-only elements with noexcept swap, throwing MemPoolParams / traits copies (AllocateCreate)
        {"name": "c04_strong_cat", "src": "c04_strong.cpp", "sanitize": "asan", "flags": ["-DC04S_PART=2", "-O0"], "timeout_quick": 600},
    ] + [
        # HashMap / TreeMap for every combination of key and value relocation categories (part = key category)
        {"name": "c04_mapcat_%d" % k, "src": "c10_mapcat.cpp", "sanitize": "asan", "flags": ["-DMC_PART=%d" % k, "-O0"], "timeout_quick": 600, "timeout_thorough": 3000}
        for k in range(1, 5)
    ] + [
        {"name": "c03_htledger_open", "src": "c03_htledger.cpp", "sanitize": "asan", "flags": ["-DVF_PART=0"], "timeout_quick": 600},
        {"name": "c03_htledger_open2", "src": "c03_htledger.cpp", "sanitize": "asan", "flags": ["-DVF_PART=1"], "timeout_quick": 600},
        {"name": "c03_htledger_chain", "src": "c03_htledger.cpp", "sanitize": "asan", "flags": ["-DVF_PART=2"], "timeout_quick": 600},
        {"name": "c03_mmledger", "src": "c03_mmledger.cpp", "sanitize": "asan", "flags": ["-DVF_PART=0"], "timeout_quick": 600},
        {"name": "c03_mmledger2", "src": "c03_mmledger.cpp", "sanitize": "asan", "flags": ["-DVF_PART=1"], "timeout_quick": 600},
    ],
    "rule": ("(a) RelocateCreate on ElemNM (nothrow-move) and ElemCO (copy-only, throwing) for count 0..5 x every failing step (model-level lines); "
             "(b) sweeps: Array / ArrayIntCap<3> / SegmentedArray(sqrt, cnst) AddBack (const&, &&, aliasing own element), SetCount, Reserve, Shrink, "
             "copy-assignment at sizes 0,3,4,8,17; HashSet/HashMap (LimP4, Open8, One) Insert, Remove, Reserve, operator[], copy-assignment at sizes "
             "0,1,3,7,20; HashMultiMap Add (new / existing key); TreeSet/TreeMap (node capacity 1, 4, 32) Insert front/middle/back, Remove, "
             "operator[], copy-assignment at sizes 0,1,4,9,33; copy / init-list / (count,item) constructors - each with the k-th allocation, k-th "
             "element copy, k-th functor call failing for all k. distinct_nontrivial = distinct (operation instance, fault kind, k) that raised. "
             "(c) c04_arrfault (model level, engine arrfault): random histories (36 rounds x 110 operations per configuration quick, 260 x 120 thorough) on the real "
             "Array / ArrayIntCap<2,3> of 5 item kinds (trivially relocatable with Reallocate / ReallocateInplace managers, nothrow-move, nothrow-move with throwing "
             "assignment, copy-only, copy-only with throwing assignment), 10 configurations; every AddBack / AddBackVar / SetCount / Reserve / Shrink / InsertVar / "
             "Insert / Remove / copy constructor / (count,item) constructor / copy assignment runs with its k-th fallible step (one counter over Allocate, "
             "Reallocate, copy construction, copy-only 'move' construction, assignment) failing, k below the largest step count seen for that operation (1/4 "
             "without fault); value arguments alias an element of the same array half of the time; the model predicts threw/ok, count, capacity, every cell incl. "
             "moved-from marks, every memory-manager call incl. the refused one, live element objects and outstanding blocks - compared line by line; the "
             "property's own oracle (unchanged state after a failed strong operation, validity / no leak after any failure) runs beside it. "
             "distinct_nontrivial there = distinct (configuration, operation, k, count before) that raised. "
             "Coverage round: + part 6 (Array<0> and ArrayIntCap<2> with a ReallocateInplace manager) and c04_segfault part 3 (sqrt/1, cnst/2 with Reallocate) of a 'not "
             "nothrow-movable but nothrow-swappable' item (copy-and-swap idiom without move constructor; for the arrays the model's category copy-only with throwing "
             "assignment); objects are also created by CreateCap / CreateCrt(count, creator) (model ops newcap / crt; every round starts with a sweep of CreateCrt over "
             "all its fault positions: allocation(s), each creator call, none; property level: a failed call leaves no element object and no block, a completed one made "
             "exactly count creator calls, the i-th for element i); c04_arrfault requests now and then a capacity whose byte size overflows size_t (Reserve, SetCount(n, item), "
             "Array(n, item), CreateCap): std::bad_array_new_length before any fallible step, count, capacity, cells and ledger as before (model: `get`). "
             "(d) c04_treefault (model level, engine btreefault; 16 configurations in 5 executables): TreeSet of trivially relocatable / nothrow-move / copy-only / "
             "copy-only-with-nothrow-assignment items and TreeMap<key, V> with nothrow-move and copy-only values, unique and multi, node capacities 1, 2, 3, 4 and "
             "32 with one-block pools (every Node::Create is one Allocate, so the k-th allocation is an exact step of the model), TreeNode<> with its default arguments "
             "(comparison / construction / assignment faults only), TreeTraitsStd (non-empty traits class), a TreeMap whose key and value are both not nothrow-anyway-"
             "assignable (documented exception 5; assignment faults on Remove only); all with ExtraCheckMode::nothing. Random histories on 4 containers + one node "
             "handle: insert, hinted add, remove by iterator / key, extract, re-insert, hinted re-insert, range insert, remove-if, merge (incl. ordered ranges for "
             "pvMergeFast and empty destinations), copy assignment, clear. Each operation runs without fault (2/5), with one random (kind, k), or - strong "
             "operations - swept k = 0,1,2,... until it succeeds. distinct_nontrivial there = distinct (configuration, operation, fault kind, k) that raised. "
             "(d') c04_treefault part 6: the same histories on TreeSet / TreeMap whose items (set item, mapped value, map key) are copy-only with a noexcept ADL swap: "
             "not nothrow relocatable but nothrow swappable, so the nodes are contiguous and shift by ObjectManager::pvShiftNothrow(swap variant), replacement goes through "
             "pvAssignAnyway(swap variant) and a failed extraction must shift the items back (Node::pvRemove catch); for the model this is the category reloc=0 assign=1. "
             "(f) c04_strong_cat (c04_strong.cpp part 2): the sweeps of (b) for ElemSW (copy-only + noexcept swap) on arrays, HashSet/HashMap (LimP4, Open8), HashMultiMap, "
             "TreeSet/TreeMap (capacity 2, 4; deep cascades capacity 3), RelocateCreate at model level; HashMultiMap::Remove(iterator) of every value position (AssignAnywayValue); "
             "MemManagerProxy::AllocateCreate: the first insertion / Reserve / operator[] / copy / copy assignment / MergeTo into a never-used tree that creates the tree's NodeParams "
             "resp. the hash table's BucketParams (LimP1, LimP) with a MemPoolParams class whose k-th construction throws, and container construction / copy / copy assignment "
             "with a traits class whose k-th copy throws (SetCrew::Data): nothing outstanding at the memory manager, contents unchanged, retry succeeds. "
             "(g) c04_mapcat (c10_mapcat.cpp, 4 executables = key category): HashMap (LimP4 crowded / spread, Open8 crowded) and TreeMap (capacity 2 contiguous-if-shiftable, capacity 3 indexed) for all 16 "
             "combinations of key and value category {nothrow-move, copy-only nothrow-assign, copy-only noexcept-swap, copy-only throwing-assign}; every pair of maps of sizes 1,2,5,9,14 + one size "
             "from the seed (ascending and seed-shuffled insertion order) is the target of Remove(iter, ExtractedPair&) / Extract / Remove(iter) / Remove(key) with the k-th copy construction, k-th "
             "assignment, k-th allocation, k-th functor call failing for all k: after an exception the map equals the reference std::map pair by pair (own value under own key; documented exception 5 "
             "tolerated only for throwing-assign key AND value under an assignment fault), handle empty, element objects as before, retry succeeds; after success the handle holds exactly the key and "
             "value of the removed pair. Node-handle move / ExtractedPair::Remove / re-insertion (absent key, present key, by position) and MergeTo / MergeFrom (same type, TreeMap<->HashMap) under the same "
             "sweeps (C10), HashMap API spellings no other harness uses (initializer-list constructor, Add(pos, Key&&/const Key&, Value&&/const Value&), AddVar(pos, Key&&, ...), Remove(Position), "
             "heterogeneous ContainsKey / Find, Position==Iterator, GetBucketBounds const / non-const) with the same reference. distinct_nontrivial there = distinct (map type, size, order, operation, target, fault kind, k) that raised. "
             "(e) c03_htledger (model level, engine htledger; described under C03): every insertion / re-insertion / removal / extraction / Reserve / copy assignment "
             "that exits with an exception is also checked by the property's own oracle - count, outstanding blocks (kinds without pools), live element objects and "
             "the handle as before."),
    "runtime_only": ["ASan/UBSan on every sweep", "memory-manager ledger and element counters after every failure and after destruction"],
    "not_modelled": ["hash family (Momo.HTL): see C03 (pool buffers abstract, bucket-internal relocation of the chained kinds not booked); a throwing assignment of Replace is assumed to leave its operands unchanged; "
                     "the documented exceptions of HashMap.h (items 4, 5) are not in the model",
                     "B-trees (Momo.BTreeF): the memory pools between Node::Create and the memory manager (a node creation is one fallible step; exact for pools with one "
                     "block per buffer, which the model-level run uses; for TreeNode<>'s default pools allocation faults are swept at property level only); Remove(begin, end) and "
                     "Remove(key) of a multi-key container under faults (Replace inside pvRemoveRange), ResetKey, initializer-list / range constructors, the Key&& overloads "
                     "(documented exception 4), stdish wrappers; node releases of a successful removal / fast merge are booked as the difference of the node counts; a throwing "
                     "element constructor / assignment / comparison is assumed to leave its operands unchanged; a manager without Reallocate is assumed for the Relocator's arrays",
                     "arrays (Momo.ArrF): SegmentedArray's copy constructor and copy assignment are in the fault model and in the correspondence run but have no theorem; Insert for input iterators, SetCount(count) with the "
                     "default creator and the initializer-list / iterator-range constructors are not in the fault model (same code shape as the modelled ones); "
                     "size_t overflow checks (pvCheckCapacity) and item filters that throw are not modelled; a throwing element constructor / assignment is "
                     "assumed to leave its operands unchanged (assumption about the item type); a move constructor declared noexcept is assumed not to throw"],
}
