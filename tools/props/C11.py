"""Registry entry of property C11 (hash tables survive failures during growth)."""

PROP = {
    "id": "C11",
    "level": "proof",
    "technique": "Lean 4 proof (invariant preserved for every fault schedule, incl. every prefix of an interrupted migration) + fault-injected state-machine correspondence",
    "level_text": ("Kernel-checked theorems over the C01 model with explicit fault arguments: a refused bucket array falls back to the existing "
                   "table and fails only when every bucket is full; wherever the migration to a larger table stops (any number of moved items, any "
                   "number of coexisting generations, repeatedly) the table invariant holds and the abstract contents are unchanged, so every "
                   "element stays findable, is traversed once and can be removed. The sizing loop of pvAddGrow (first bucket count >= the next size whose capacity exceeds the count) is modelled "
                   "(growLog): in every state, however overloaded by refused growths, an insertion never answers invalid_argument, falls back to the existing table while the array is refused, "
                   "and once the array is granted reaches a capacity above the count and refines the abstract insertion (C11_overloaded_growth_reaches_capacity). The real containers are driven with refused bucket arrays, refused "
                   "pool buffers, throwing element copies and throwing hash functors; the model must reproduce every intermediate layout. The probe loop of pvAddNogrow over the index functions TRANSLATED from the headers (tools/trspecs/HashProbe.py) reports 'table is full' only when every bucket is full (C11_full_only_when_all_buckets_full_translated)."),
    "level_note": ("Trusted as C01. The point where a fault strikes inside the migration is reported by the harness as the number of items moved "
                   "(the model does not predict allocator internals, DESIGN.md 2.7); functor faults need extraCheckMode = nothing (O1)."),
    "modules": ["Momo.Props.C11"],
    "theorems": [
        "Momo.HT.C11_refused_growth_fallback",
        "Momo.HT.C11_full_iff_all_buckets_full",
        "Momo.HT.C11_add_every_fault_partial",
        "Momo.HT.C11_migration_interrupted",
        "Momo.HT.C11_migration_interrupted_core",
        "Momo.HT.C11_remove_in_any_generation",
        "Momo.HT.C11_migration_completes",
        "Momo.HT.C11_later_insert_completes",
        "Momo.HT.C11_overloaded_growth_reaches_capacity",
        "Momo.HT.C11_insert_after_overload_never_invalid",
        "Momo.HT.C11_invalid_only_if_capacity_stalls",
        "Momo.HT.C11_reserve_every_fault_partial",
        "Momo.HT.C11_history_partial",
        "Momo.HT.C11_history_full_false",
        "Momo.HT.C11_full_only_when_all_buckets_full_translated",
    ],
    "harnesses": [
        {"name": "c11_chain", "src": "c01_hash.cpp", "flags": ["-DVF_PART=0", "-DVF_FAULTS=1"]},
        {"name": "c11_old", "src": "c01_hash.cpp", "flags": ["-DVF_PART=1", "-DVF_FAULTS=1"]},
        {"name": "c11_open", "src": "c01_hash.cpp", "flags": ["-DVF_PART=2", "-DVF_FAULTS=1"]},
        {"name": "c11_cfg", "src": "c01_hash.cpp", "flags": ["-DVF_PART=3", "-DVF_FAULTS=1"]},
        {"name": "c11_chain_p48", "src": "c01_hash.cpp", "flags": ["-DVF_PART=0", "-DVF_FAULTS=1", "-DVF_PTRBITS=48", "-DMOMO_MEM_MANAGER_PTR_USEFUL_BIT_COUNT=48"]},
        {"name": "c11_chain_p32", "src": "c01_hash.cpp", "flags": ["-DVF_PART=0", "-DVF_FAULTS=1", "-DVF_PTRBITS=32", "-DMOMO_MEM_MANAGER_PTR_USEFUL_BIT_COUNT=32"]},
    ],
    "rule": ("every fourth history of the chained / unlimited kinds (LimP4, LimP, LimP1, UnlimP) and of Open2N2<3> starts with the PERSISTENT-REFUSAL prologue: fresh keys, every bucket "
             "array pvAddGrow asks for refused insertion after insertion until the count has passed the capacity of the next bucket count and of the one after it (UnlimP: 66 items in 4 "
             "buckets, LimP<15>) or every bucket is full ('Hash table is full' accepted only then), then memory is back and the next insertion must grow the table to a capacity above the "
             "count with every key found; each of these insertions is a non-trivial case. Then: the C01 histories with a fault armed on 1/3 of insertions / reservations (refuse exactly the next bucket array, refuse the k-th other "
             "allocation, throw from the k-th element copy, throw from the k-th hash call of slow-hash traits) and, when growth is imminent, a failure "
             "aimed inside the migration; a case is non-trivial when the operation ran with >= 2 table generations alive or right after a refused "
             "growth (counted per operation: distinct (history, step)). c11_cfg / c11_chain_p48 / _p32: the same under the added C01 configurations "
             "(LimP<7>/<15> pointer states, one-block pools, 48-/32-bit LimP4 pointer states); while several generations coexist the bucket interface "
             "(GetBucketBounds over all generations, GetBucketIndex of keys in old generations) is checked after every operation."),
    "runtime_only": ["ledger of the memory manager at the end of every history"],
    "not_modelled": ["which allocation inside the migration fails (taken from the observed number of moved items)"],
}
