"""Registry entry of property C17 (see tools/registry.py)."""

PROP = {
    "id": "C17",
    "level": "proof",
    "technique": ("Lean 4 proof (loop invariants over a checked-memory model: sign-monotone comparers for binary/exponential search, "
                  "index-range invariants for the interpolation loop, frame + permutation invariants for pvGroup / selection sort / "
                  "radix recursion, a counting argument for the in-place cycle-leader partition) + state-level correspondence on the "
                  "real HashSorter / RadixSorter under ASan+UBSan"),
    "level_text": ("Kernel-checked theorems, no bound on the sequence length: for every array, every Bool-valued equivalence and every "
                   "64-bit hash under which equal items of the array have equal codes, the model of HashSorter::Sort and SortPrehashed "
                   "returns a permutation with non-decreasing codes and contiguous equal items (the parallel hash array permuted in "
                   "step), RadixSorter<R> sorts for every radix size R >= 1 and every code width (including R wider than the code, the "
                   "in-place cycle-leader partition fully proved, not assumed), and on every arranged array - including the empty one - "
                   "Find, GetBounds (and IsSorted on every array, arranged or not) return exactly the linear-scan answer; pvMultShift(h,n) "
                   "< n. Every array access of the model is checked and every theorem concludes `= some ...`, i.e. no access leaves the "
                   "sequence, no size_t subtraction wraps, no MOMO_ASSERT fails, every loop terminates. The model is executable and is "
                   "compared cell by cell with the real code on every run (exact arrangement after Sort through item ids, the exact sequence of iterSwapper calls through a logging swapper, exact indices "
                   "returned by Find/GetBounds, pvMultShift/pvGetStepCount at function level); thresholds and radix constants are "
                   "re-extracted from the headers."
                   " HashSorter::pvGetStepCount is additionally TRANSLATED from the header text on every run (tools/translate.py) and proved equal to the model's stepCount (C17_stepCount_translated)."
                   " Area Misc of the translator (tools/trspecs/Misc.py): pvMultShift, pvCompare, the index updates of pvFindHash / pvExponentialSearch / "
                   "pvBinarySearch, RadixSorter::pvGetRadix, the shift clamp of RadixSorter::Sort, nextShift, selectionSortMaxCount and radixCount are "
                   "TRANSLATED from the header text on every run and proved equal to the model functions / to the expressions of the model loops "
                   "(Proof/TrEqMisc2Sort.lean; C17_multShift_translated, C17_findHashLoop_translated, C17_getRadix_translated, C17_radix_shifts_translated ...)."),
    "level_note": ("Trusted: Lean kernel, the three standard axioms, extractor, correspondence harness (g++, -fno-access-control, ASan/UBSan). "
                   "Modelled, not verified: iterators as (view, offset) pairs, std::reverse_iterator arithmetic, std::iter_swap / std::swap as "
                   "an exchange of two cells, std::min_element as 'first smallest', std::array bounds; sizes are unbounded naturals (index "
                   "arithmetic such as i*2+2 or middleIndex + diff cannot wrap for count < 2^63, which object size limits guarantee); only "
                   "pvMultShift is modelled with explicit 64-bit wrap-around. equalFunc must be an equivalence and hashFunc must respect it "
                   "on the items present (hypotheses of the theorems; the harness functors satisfy them)."),
    "modules": ["Momo.Props.C17"],
    "theorems": [
        "Momo.Sort.C17_multShift_lt",
        "Momo.Sort.C17_multShift_le_exact",
        "Momo.Sort.C17_sort_plain",
        "Momo.Sort.C17_sort_prehashed",
        "Momo.Sort.C17_radix_sorts",
        "Momo.Sort.C17_partition_correct",
        "Momo.Sort.C17_group_correct",
        "Momo.Sort.C17_find_plain",
        "Momo.Sort.C17_find_prehashed",
        "Momo.Sort.C17_bounds_plain",
        "Momo.Sort.C17_bounds_prehashed",
        "Momo.Sort.C17_isSorted_plain",
        "Momo.Sort.C17_isSorted_prehashed",
        "Momo.Sort.C17_stepCount_translated",
        "Momo.Sort.C17_multShift_translated",
        "Momo.Sort.C17_pvCompare_translated",
        "Momo.Sort.C17_findHash_start_translated",
        "Momo.Sort.C17_findHashLoop_translated",
        "Momo.Sort.C17_search_steps_translated",
        "Momo.Sort.C17_getRadix_translated",
        "Momo.Sort.C17_radix_shifts_translated",
    ],
    "harnesses": [
        {"name": "c17_sort", "src": "c17_sort.cpp", "sanitize": "asan"},
        {"name": "c17_radix_a", "src": "c17_radix.cpp", "sanitize": "asan", "flags": ["-DC17_RGROUP=0"]},
        {"name": "c17_radix_b", "src": "c17_radix.cpp", "sanitize": "asan", "flags": ["-DC17_RGROUP=1"]},
        {"name": "c17_radix_c", "src": "c17_radix.cpp", "sanitize": "asan", "flags": ["-DC17_RGROUP=2"]},
        {"name": "c17_radix_d", "src": "c17_radix.cpp", "sanitize": "asan", "flags": ["-DC17_RGROUP=3"]},
    ],
    "rule": ("c17_sort / arith: pvMultShift on all pairs of ~360 boundary values (2^k +-2, small numbers, half-word masks) plus 40 000 "
             "(thorough 400 000) boundary-biased random pairs, pvGetStepCount around every power of two up to 2^40. exh: every sequence of "
             "length 0..7 (thorough 0..8) over a 3-letter alphabet x 9 fixed hash tables (constant 0 / mid / 2^64-1, two-valued, extreme "
             "0 / 2^64-1, extreme with a middle value, injective spread over the 64-bit range, injective near 0, injective near 2^64-1) + 2 "
             "(thorough 12) random tables, plain and prehashed, raw pointers and vector iterators alternating: IsSorted on the raw sequence; "
             "Find+GetBounds for 6 query keys (3 alphabet keys, one absent key whose hash collides with a present one, one hashing below all, "
             "one above all) on the raw sequence when it happens to be arranged and on the sorted one; Sort with the arrangement (ids), the hash array and the swap log (number of iterSwapper calls + order-sensitive checksum of "
             "their index pairs) compared with the model. rand: 60 (thorough 260) LCG sequences of length 0..30 000 (thorough 120 000, one of 2^22+5 to "
             "reach pvGetStepCount = 3) over 10 hash families (constant, 2/3/4/256-valued, multiplicative, identity, high-byte, 4-key "
             "collisions, mid-range) optionally overlaid with a table holding 0 and 2^64-1, key ranges from 1 to 10n, 30 (60) queries each. "
             "c17_radix_a..d: RadixSorter<1..16> x {uint8,uint16,uint32,uint64,const char*}: 12+ sizes around selectionSortMaxCount x 7 code "
             "distributions (uniform, few distinct, all equal, extremes, shared high bits, boundary-biased, two clusters) as native arrays "
             "(against std::sort) and as (code,id) records (ids against the model), plus generated sequences of 2 000..12 000 (thorough "
             "20 000..120 000) codes. distinct_nontrivial counts distinct (table, mode, sequence) with >= 3 items and >= 2 distinct keys, "
             "distinct random (family, n, K, seed), distinct (type, R, distribution, n, base)."),
    "runtime_only": ["absence of out-of-bounds reads/writes and of undefined shifts in the real code is observed under ASan+UBSan on the "
                     "generated inputs (the theorems prove it for the model only)"],
    "not_modelled": ["signed integer element types of RadixSorterCodeGetter (sorted by their unsigned representation, not by value)",
                     "64-bit wrap-around of index arithmetic for sequences of 2^63 or more cells",
                     "exceptions thrown by hashFunc / equalFunc / iterSwapper",
                     "the number of hashFunc / equalFunc calls (only results and arrangements are compared)"],
}
