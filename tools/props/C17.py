"""Registry entry of property C17 (see tools/registry.py)."""

PROP = {
    "id": "C17",
    "level": "proof",
    "technique": "Lean 4 proof + correspondence",
    "level_text": "under construction",
    "level_note": "",
    "modules": ["Momo.Props.C17"],
    "theorems": [
        "Momo.Sort.C17_stub",
    ],
    "harnesses": [
        {"name": "c17_sort", "src": "c17_sort.cpp", "sanitize": "asan"},
        {"name": "c17_radix_a", "src": "c17_radix.cpp", "sanitize": "asan", "flags": ["-DC17_RGROUP=0"]},
        {"name": "c17_radix_b", "src": "c17_radix.cpp", "sanitize": "asan", "flags": ["-DC17_RGROUP=1"]},
        {"name": "c17_radix_c", "src": "c17_radix.cpp", "sanitize": "asan", "flags": ["-DC17_RGROUP=2"]},
        {"name": "c17_radix_d", "src": "c17_radix.cpp", "sanitize": "asan", "flags": ["-DC17_RGROUP=3"]},
    ],
    "rule": "",
    "runtime_only": [],
    "not_modelled": [],
}
