"""Registry entry of property C08 (hash multimap equals the abstract key -> value-list map)."""

PROP = {
    "id": "C08",
    "level": "proof",
    "technique": ("Lean 4 proof (representation invariant of the value array by induction over operations, refinement of the multimap to "
                  "Key -> Option (List Value) on top of the C01 key-map contract, counting arguments over the multiset of pairs) + "
                  "state-machine correspondence on the complete internal state (key-table layout, representation tag and raw state byte / "
                  "heap capacity of every value array)"),
    "level_text": ("Kernel-checked theorems over an executable model of HashMultiMap (value array of details/ArrayBucket.h as a machine "
                   "none | fast pool k with state byte (pool<<4)|count | heap array with capacity; HashMultiMap.h operations; the decision "
                   "logic of stdish::unordered_multimap) that is generic in the key map. For EVERY history of add (key / key position), "
                   "key insertion, removal by position / predicate / of all values / of the key, key reset, clear, copy, move and swap, with "
                   "every fault outcome, the state satisfies the invariant (total = sum over keys) and its abstraction equals the abstract "
                   "operations on Key -> Option (List Value) with exact per-key order; keys persist with zero values until removed as keys; "
                   "the pair iterator enumerates every pair exactly once; the state byte round-trips for all maxFastCount <= 15; count, "
                   "equal_range, erase (key / iterator / range), erase_if and operator== are functions of the multiset of pairs. The key-map "
                   "contract is discharged for the C01 hash-table model for every bucket description with SpecOK and every hash function "
                   "(using the C01 theorems; ResetKey proved here), and for a reference list map. The model is run against the real "
                   "containers on every check."
                   " Area Misc of the translator (tools/trspecs/Misc.py): ArrayBucket::pvMakeState / pvGetMemPoolIndex / pvGetFastCount / "
                   "pvGetFastMemPoolIndex and the state / size arithmetic of AddBackCrt and RemoveBack (state +-1 with int promotion, first heap capacity, "
                   "shrink rule) are TRANSLATED from the header text on every run and proved equal to the model (Proof/TrEqMisc2Bucket.lean; "
                   "C08_state_byte_roundtrip_translated, C08_value_array_ops_translated)."
                   " Second wave (tools/trspecs/Wave2.py, Proof/TrEqWave2MMap.lean): the branch tests and counts of ArrayBucket::AddBackCrt / RemoveBack (first count, "
                   "memPoolIndex > 0, count == memPoolIndex, newCount, newCount <= maxFastCount, heap state byte, count == 1) are translated; VArr.addBack is restated "
                   "with every test and value from the header text (C08_value_array_tests_translated)."),
    "level_note": ("Trusted: Lean kernel + 3 standard axioms, extractor, harness (g++, -fno-access-control). Modelled not verified: object layout "
                   "of the value-array blocks and of momo::Array, memory pools behind the value arrays (only 'allocation refused' is an "
                   "input), relocation of values by memcpy / move; iterator provenance is modelled as 'can move / cannot move'. The HT instance "
                   "relies on the C01 proof files (Momo/Proof/HashTable*.lean)."),
    "modules": ["Momo.Props.C08"],
    "theorems": [
        "Momo.MMap.C08_state_byte_roundtrip",
        "Momo.MMap.C08_state_byte_roundtrip_translated",
        "Momo.MMap.C08_value_array_ops_translated",
        "Momo.MMap.C08_value_array_tests_translated",
        "Momo.MMap.C08_value_array_refines",
        "Momo.MMap.C08_value_array_rep",
        "Momo.MMap.C08_mm_refines",
        "Momo.MMap.C08_step_refines",
        "Momo.MMap.C08_failed_add_unchanged",
        "Momo.MMap.C08_total_is_sum",
        "Momo.MMap.C08_key_stays_after_last_value",
        "Momo.MMap.C08_key_persists",
        "Momo.MMap.C08_remove_results",
        "Momo.MMap.C08_traversal_once",
        "Momo.MMap.C08_pairs_multiset",
        "Momo.MMap.C08_wrapper_count_range",
        "Momo.MMap.C08_wrapper_erase_key",
        "Momo.MMap.C08_wrapper_erase_iterator",
        "Momo.MMap.C08_wrapper_erase_range",
        "Momo.MMap.C08_wrapper_erase_if",
        "Momo.MMap.C08_wrapper_eq",
        "Momo.MMap.C08_wrapper_depends_only_on_pairs",
        "Momo.MMap.C08_ht_refines",
        "Momo.MMap.C08_ht_specs_ok",
        "Momo.MMap.C08_list_refines",
        "Momo.MMap.htLawful",
        "Momo.MMap.listLawful",
        "Momo.MML.C08_multimap_ledger_refines_spec_partial",
        "Momo.MML.C08_multimap_ledger_add_appends",
        "Momo.MML.C08_multimap_ledger_step_refines_spec_partial",
        "Momo.MML.C08_multimap_ledger_history_refines_spec_partial",
        "Momo.MML.C08_multimap_ledger_history_refines_spec_partial2",
        "Momo.MML.C08_multimap_ledger_good_preserved",
    ],
    "harnesses": [
        {"name": "c08_limp4", "src": "c08_mmap.cpp", "sanitize": "asan", "flags": ["-DVF_PART=0", "-O0"]},
        {"name": "c08_open8", "src": "c08_mmap.cpp", "sanitize": "asan", "flags": ["-DVF_PART=1", "-O0"]},
        {"name": "c08_stdish", "src": "c08_mmap.cpp", "sanitize": "asan", "flags": ["-DVF_PART=2", "-O0"]},
        {"name": "c08_more", "src": "c08_mmap.cpp", "sanitize": "asan", "flags": ["-DVF_PART=3", "-O0"]},
    ],
    "rule": ("native API: random histories (700 ops quick / 4000 thorough per run, 3 / 12 runs per instantiation; add by key / by key position, InsertKey, AddKeyCrt, "
             "Remove(keyIter, index) through Find- and traversal-origin key iterators, Remove(predicate), RemoveValues, RemoveKey by key and "
             "by position, ResetKey, Clear, copy, move, swap, Find, pair and key traversal, dumps) over 12 instantiations = maxFastCount "
             "{1, 2, 7, 15} x key buckets {LimP4<1>/<2>/<3>/<4>, Open8, Open2N2<1>/<3>} x key kinds {trivially copyable, throwing copy-assignment} x values "
             "{uint32_t, non-trivial nothrow-move object}, hash family drawn from {constant, low 4 bits, high byte, identity, multiplicative, "
             "two clusters}, key ranges 5..150; bursts of 2*maxFast+2 .. 130 additions to one key followed by drains so that every array "
             "crosses pool k -> k+1 -> heap -> grow -> shrink -> none; injected faults: refused value-array allocation, refused allocation "
             "on a new key, refused shrink (swallowed), throwing key assignment inside RemoveKey (roll-back). After EVERY op the model must "
             "print the same result and the same key count, value count, key-table count / capacity / generations / layout checksum and the "
             "checksum over (key, tag, representation tag with raw state byte or heap capacity, values in order) of every value array; "
             "every 16 ops the property oracle (std::map<key, vector<value>>) checks per-key counts and order, total, value-less keys, absent "
             "keys, pair and key traversal. Wrapper: unordered_multimap / unordered_multimap_open with the default and with a family hasher "
             "(transparent, so that the heterogeneous find / count / contains / equal_range overloads are called for every key incl. value-less ones) "
             "(real BucketOpen8 and its BucketOpen2N2 fallback) against std::unordered_multimap: insert / emplace / emplace_hint in twelve spellings (lvalue, rvalue, "
             "convertible pair, hinted, std::piecewise_construct with a key of another type = key built in a buffer), count, equal_range, find (const and non-const), "
             "contains, erase(key), erase(iterator) from lookups and from traversal, erase(it, next(it)), erase(first,last) with same-provenance "
             "ends (legal: empty | single | one whole key group | whole container; everything else must throw invalid_argument and change "
             "nothing), erase_if, ==/!=, copy, move, swap, clear, plus a scripted scenario: same pairs in another insertion order plus a "
             "value-less key must compare equal. distinct_nontrivial = number of operations that crossed a representation boundary "
             "(pool k->k+1, fast->heap, heap grow, heap shrink, ->none, copy re-packing), multi-element range erases, erase_if leaving "
             "value-less keys, and equality checks that must hold despite different order / value-less keys."),
    "runtime_only": ["all three harness executables run under ASan + UBSan (out-of-bounds / use-after-free in the pool <-> heap transitions of the value arrays would abort the run)",
                     "leak / double-free ledger of the memory manager and value-object counters at the end of every native history (C03 piggyback)"],
    "not_modelled": ["iterator version counters (C15)",
                     "RemoveKey roll-back after a throwing key assignment is handled in the driver (op token fk: state unchanged, E:user), it is not a parameter of MM.removeKey",
                     "Remove(pairFilter) is modelled key by key (VArr.removeIf) rather than as the iterator loop it is written as; the iterator machine itself (pvMove) is modelled and proved to enumerate the pairs", "which memory pool block a value array occupies; MemPool internals (C09)",
                     "faults during growth/migration of the key table (C11 covers them; C08 injects faults only when no growth is imminent)",
                     "ranges whose ends come from different sources (lookup result + traversal): documented deviation, lookup results cannot traverse",
                     "HashMultiMap(initializer_list) / Add(range) (loops over the modelled Add)"],
}
