"""Registry entry of property C03 (every byte and every element released exactly once, never touched after)."""

PROP = {
    "id": "C03",
    "level": "proof",
    "technique": ("Lean 4 proof (an executable ledger monitor proved sound and complete w.r.t. the list-level statement of C03; traces of the object "
                  "life-cycle, pool and value-semantics models proved disciplined for every history / fault schedule) + the verified monitor replaying "
                  "the complete event stream of random fault-injecting histories of every real container family, under ASan/UBSan"),
    "level_text": ("Kernel-checked: (1) the monitor Ledger.run accepts a list of events (alloc/dealloc with manager class and size, construct/destroy/"
                   "relocate/use of elements, touch of blocks) iff the list is disciplined - every dealloc answers an outstanding alloc of the same block "
                   "with the same size and an equal manager, nothing is constructed over a live object, destroyed / used / relocated when not alive, "
                   "touched outside a live block - and ends with zero outstanding blocks and elements iff nothing is left open in the list; (2) in an "
                   "accepted clean list, by positions and by counting: after each alloc the next event about that block is its matching dealloc, each "
                   "element's beginning is followed by exactly one end, no use after an end; (3) the traces produced by the models are accepted: "
                   "ObjectManager::RelocateCreate / CopyExec for every relocation category, count and fault schedule; every legal MemPool history "
                   "(allocate / deallocate / DeallocateIf / DeallocateAll / MergeFrom / refused allocation) followed by DeallocateAll or the destructor "
                   "returns every buffer exactly once with its size; every history of value operations of the C14 model (construct, copy, move, swap, "
                   "assign, clear, mutate, wrapper operations over any managers) is accepted - each block returns to the manager class that allocated "
                   "it - and is balanced once every object is destroyed. "
                   "Run time: every Allocate / Deallocate / Reallocate call and every constructor / destructor / assignment / functor use of "
                   "instrumented elements during random histories (with injected allocation failures, throwing copies, throwing hash / equality / "
                   "ordering functors, clear-with-shrink, copies, moves, swaps, merges between equal and unequal managers, destruction) of Array, "
                   "SegmentedArray, HashSet/HashMap (chained and open-addressing buckets), HashMultiMap, TreeSet/TreeMap, MemPool, DataTable and stdish "
                   "wrappers is written as one line, replayed by the Lean monitor, and must get the same verdict line by line; at the end of each "
                   "history both report zero outstanding blocks and zero live elements."),
    "level_note": ("PARTIAL. C03_full quantifies over the C++ containers and is not a theorem: for the real code the verified monitor judges the "
                   "histories that the generators reach (see counters), it does not cover all histories. Proved for all histories / fault schedules "
                   "only for the traces of the models Obj (RelocateCreate, CopyExec: element events), Pool (blockCount > 1 state machine: buffer "
                   "events, under the hypothesis FreshMallocs = the manager never answers with an outstanding address) and Val (block events of value "
                   "operations; its element events carry values, not identities, and are not translated); Arr / ArrSeg / HashTable / BTree / MMap / "
                   "Table models emit no identity-carrying traces and are covered only by the monitor at run time. Memory safety proper (no read or write outside live blocks by the container code) is NOT proved: it is run-time evidence "
                   "(ASan + UBSan on every harness, freed blocks kept poisoned until the end of the history); the ledger sees only the addresses of "
                   "element objects at construction / destruction (touch events). Trusted: Lean kernel + standard axioms, the recorder in "
                   "harness/c03_ledger.h (that it reports every manager call and element event), g++/ASan."),
    "modules": ["Momo.Props.C03"],
    "theorems": [
        "Momo.Ledger.C03_monitor_sound",
        "Momo.Ledger.C03_monitor_complete",
        "Momo.Ledger.C03_balanced_iff",
        "Momo.Ledger.C03_outstanding_zero_iff",
        "Momo.Ledger.C03_block_released_once",
        "Momo.Ledger.C03_dealloc_matches_alloc",
        "Momo.Ledger.C03_block_counts",
        "Momo.Ledger.C03_touch_inside_live",
        "Momo.Ledger.C03_element_ended_once",
        "Momo.Ledger.C03_no_use_after_end",
        "Momo.Ledger.C03_use_alive",
        "Momo.Ledger.C03_element_counts",
        "Momo.Ledger.C03_obj_relocateCreate",
        "Momo.Ledger.C03_obj_copyExec",
        "Momo.Ledger.C03_obj_replay_is_monitor",
        "Momo.Ledger.C03_pool_history_all_returned",
        "Momo.Ledger.C03_pool_destroy_all_returned",
        "Momo.Ledger.C03_pool_ledger_is_monitor",
        "Momo.Ledger.C03_val_history_accepted",
        "Momo.Ledger.C03_val_history_all_destroyed",
    ],
    "harnesses": [
        {"name": "c03_array", "src": "c03_array.cpp", "sanitize": "asan", "flags": ["-DC03_PART=0"], "timeout_quick": 600},
        {"name": "c03_arrayx", "src": "c03_array.cpp", "sanitize": "asan", "flags": ["-DC03_PART=1"], "timeout_quick": 600},
        {"name": "c03_segarray", "src": "c03_array.cpp", "sanitize": "asan", "flags": ["-DC03_PART=2"], "timeout_quick": 600},
        {"name": "c03_hashset", "src": "c03_hash.cpp", "sanitize": "asan", "flags": ["-DC03_PART=0"], "timeout_quick": 600},
        {"name": "c03_hashmap", "src": "c03_hash.cpp", "sanitize": "asan", "flags": ["-DC03_PART=1"], "timeout_quick": 600},
        {"name": "c03_hashopen", "src": "c03_hash.cpp", "sanitize": "asan", "flags": ["-DC03_PART=2"], "timeout_quick": 600},
        {"name": "c03_hashold", "src": "c03_hash.cpp", "sanitize": "asan", "flags": ["-DC03_PART=3"], "timeout_quick": 600},
        {"name": "c03_treeset", "src": "c03_tree.cpp", "sanitize": "asan", "flags": ["-DC03_PART=0"], "timeout_quick": 600},
        {"name": "c03_treemap", "src": "c03_tree.cpp", "sanitize": "asan", "flags": ["-DC03_PART=1"], "timeout_quick": 600},
        {"name": "c03_treesmall", "src": "c03_tree.cpp", "sanitize": "asan", "flags": ["-DC03_PART=2"], "timeout_quick": 600},
        {"name": "c03_multimap", "src": "c03_misc.cpp", "sanitize": "asan", "flags": ["-DC03_PART=0"], "timeout_quick": 600},
        {"name": "c03_mempool", "src": "c03_misc.cpp", "sanitize": "asan", "flags": ["-DC03_PART=1"], "timeout_quick": 600},
        {"name": "c03_datatable", "src": "c03_misc.cpp", "sanitize": "asan", "flags": ["-DC03_PART=2"], "timeout_quick": 600},
        {"name": "c03_stdish", "src": "c03_misc.cpp", "sanitize": "asan", "flags": ["-DC03_PART=3"], "timeout_quick": 600},
    ],
    "rule": ("14 executables (array x3, hash x4, tree x3, multimap, mempool, datatable, stdish), 45 container configurations. Each history: two "
             "containers of one type (stdish: eight) over stateful managers of equal or unequal identity classes (chosen per history), 55-120 random "
             "operations of the container's whole mutating API incl. copy / move construction and assignment, Swap, merges, extraction and "
             "re-insertion, range operations, Reserve / Shrink / Clear(true|false), about one operation in three with an armed fault (k-th allocation "
             "or Reallocate refused, k-th element copy throws, k-th hash / equality / ordering call throws - functor faults only with "
             "extraCheckMode = nothing), then destruction of all but one container, Clear-with-shrink of the last (must leave only the blocks an "
             "empty container holds and no element), destruction. Directed steps: TreeSet/TreeMap MergeTo into an empty destination with an equal "
             "manager, source destroyed first, then node allocations (finding F27); DataTable copying constructors with the k-th row import failing, "
             "probed in a forked child and then run in-process (finding F28). Every manager call / element construction, destruction, copy source, "
             "assignment and functor argument / address of constructed and destroyed elements inside manager blocks is one op line for the Lean "
             "monitor. evaluations = histories (quick 1440, thorough 21000 over two seeds); distinct_nontrivial = distinct (family, operation, "
             "exception kind, k) that exited with an exception."),
    "runtime_only": ["ASan/UBSan on every history; blocks given back are kept poisoned until the end of the history, so a later access aborts",
                     "absence of out-of-bounds accesses inside live blocks",
                     "that the recorder sees every event (elements are instrumented types; plain integers have block events only)"],
    "not_modelled": ["container-level models (Arr, ArrSeg, HashTable, BTree, MMap, Table) emit no ledger traces: no theorem that THEIR histories are balanced",
                     "libstdc++ internals behind stdish::pool_allocator (C20)"],
}
