"""Registry entry of property C03 (every byte and every element released exactly once, never touched after)."""

PROP = {
    "id": "C03",
    "level": "proof",
    "technique": ("Lean 4 proof (an executable ledger monitor proved sound and complete w.r.t. the list-level statement of C03; traces of the object "
                  "life-cycle, pool and value-semantics models proved disciplined for every history / fault schedule) + the verified monitor replaying "
                  "the complete event stream of random fault-injecting histories of every real container family, under ASan/UBSan"),
    "level_text": ("Kernel-checked: (1) the monitor Ledger.run accepts a list of events (alloc/dealloc with manager class and size, construct/destroy/"
                   "relocate/use of elements, touch of blocks) iff the list is disciplined - every dealloc answers an outstanding alloc of the same block "
                   "with the same size and an equal manager, nothing is constructed over a live object, destroyed / used / relocated when not alive, "
                   "touched outside a live block - and ends with zero outstanding blocks and elements iff nothing is left open in the list; (2) in an "
                   "accepted clean list, by positions and by counting: after each alloc the next event about that block is its matching dealloc, each "
                   "element's beginning is followed by exactly one end, no use after an end; (3) the traces produced by the models are accepted: "
                   "ObjectManager::RelocateCreate / CopyExec for every relocation category, count and fault schedule; MemPool histories "
                   "(allocate / deallocate / DeallocateIf / DeallocateAll / MergeFrom / failed allocation) return every buffer with its size. "
                   "Run time: every Allocate / Deallocate / Reallocate call and every constructor / destructor / assignment / functor use of "
                   "instrumented elements during random histories (with injected allocation failures, throwing copies, throwing hash / equality / "
                   "ordering functors, clear-with-shrink, copies, moves, swaps, merges between equal and unequal managers, destruction) of Array, "
                   "SegmentedArray, HashSet/HashMap (chained and open-addressing buckets), HashMultiMap, TreeSet/TreeMap, MemPool, DataTable and stdish "
                   "wrappers is written as one line, replayed by the Lean monitor, and must get the same verdict line by line; at the end of each "
                   "history both report zero outstanding blocks and zero live elements."),
    "level_note": ("PARTIAL. C03_full quantifies over the C++ containers and is not a theorem: for the real code the verified monitor judges the "
                   "histories that the generators reach (see counters), it does not cover all histories. Proved for all histories / fault schedules "
                   "only for the traces of the models Obj (RelocateCreate, CopyExec), Pool (blockCount > 1 state machine) and Val (value operations); "
                   "Arr / ArrSeg / HashTable / BTree / MMap / Table models emit no identity-carrying traces and are covered only by the monitor at run "
                   "time. Memory safety proper (no read or write outside live blocks by the container code) is NOT proved: it is run-time evidence "
                   "(ASan + UBSan on every harness, freed blocks kept poisoned until the end of the history); the ledger sees only the addresses of "
                   "element objects at construction / destruction (touch events). Trusted: Lean kernel + standard axioms, the recorder in "
                   "harness/c03_ledger.h (that it reports every manager call and element event), g++/ASan."),
    "modules": ["Momo.Props.C03"],
    "theorems": [
        "Momo.Ledger.C03_monitor_sound",
        "Momo.Ledger.C03_monitor_complete",
        "Momo.Ledger.C03_balanced_iff",
        "Momo.Ledger.C03_outstanding_zero_iff",
        "Momo.Ledger.C03_block_released_once",
        "Momo.Ledger.C03_dealloc_matches_alloc",
        "Momo.Ledger.C03_block_counts",
        "Momo.Ledger.C03_touch_inside_live",
        "Momo.Ledger.C03_element_ended_once",
        "Momo.Ledger.C03_no_use_after_end",
        "Momo.Ledger.C03_use_alive",
        "Momo.Ledger.C03_element_counts",
        "Momo.Ledger.C03_obj_relocateCreate",
        "Momo.Ledger.C03_obj_copyExec",
        "Momo.Ledger.C03_obj_replay_is_monitor",
    ],
    "harnesses": [
        {"name": "c03_array", "src": "c03_array.cpp", "sanitize": "asan", "timeout_quick": 600},
    ],
    "rule": ("Each history: two (or more) containers of one type over managers of equal or unequal identity classes, 40-120 random operations of the "
             "container's whole mutating API, about one in three with an armed fault (k-th allocation refused, k-th element copy throws, k-th functor "
             "call throws under extraCheckMode = nothing), then destruction of all but one container, Clear(true) of the last (must leave nothing but "
             "the container's fixed blocks), destruction. Every manager call / element event is one op line. evaluations = histories; "
             "distinct_nontrivial = distinct (family, operation, exception kind, k) that exited with an exception."),
    "runtime_only": ["ASan/UBSan on every history; blocks given back are kept poisoned until the end of the history, so a later access aborts",
                     "absence of out-of-bounds accesses inside live blocks",
                     "that the recorder sees every event (elements are instrumented types; plain integers have block events only)"],
    "not_modelled": ["container-level models (Arr, ArrSeg, HashTable, BTree, MMap, Table) emit no ledger traces: no theorem that THEIR histories are balanced",
                     "libstdc++ internals behind stdish::pool_allocator (C20)"],
}
