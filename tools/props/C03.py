"""Registry entry of property C03 (every byte and every element released exactly once, never touched after)."""

PROP = {
    "id": "C03",
    "level": "proof",
    "technique": ("Lean 4 proof (an executable ledger monitor proved sound and complete w.r.t. the list-level statement of C03; traces of the object "
                  "life-cycle, pool and value-semantics models proved disciplined for every history / fault schedule) + the verified monitor replaying "
                  "the complete event stream of random fault-injecting histories of every real container family, under ASan/UBSan"),
    "level_text": ("Kernel-checked: (1) the monitor Ledger.run accepts a list of events (alloc/dealloc with manager class and size, construct/destroy/"
                   "relocate/use of elements, touch of blocks) iff the list is disciplined - every dealloc answers an outstanding alloc of the same block "
                   "with the same size and an equal manager, nothing is constructed over a live object, destroyed / used / relocated when not alive, "
                   "touched outside a live block - and ends with zero outstanding blocks and elements iff nothing is left open in the list; (2) in an "
                   "accepted clean list, by positions and by counting: after each alloc the next event about that block is its matching dealloc, each "
                   "element's beginning is followed by exactly one end, no use after an end; (3) the traces produced by the models are accepted: "
                   "ObjectManager::RelocateCreate / CopyExec for every relocation category, count and fault schedule; every legal MemPool history "
                   "(allocate / deallocate / DeallocateIf / DeallocateAll / MergeFrom / refused allocation) followed by DeallocateAll or the destructor "
                   "returns every buffer exactly once with its size; every history of value operations of the C14 model (construct, copy, move, swap, "
                   "assign, clear, mutate, wrapper operations over any managers) is accepted - each block returns to the manager class that allocated "
                   "it - and is balanced once every object is destroyed. "
                   "Hash family (Momo.HTL, a ledger layer over the C01 / C11 hash-table model: every operation of HashSet.h emits its manager calls - bucket array "
                   "of every generation, BucketParams, crew block, pool buffers - and the life-cycle events of its element objects - creator, Relocate by "
                   "category, Replace / ReplaceRelocate, copies and their roll-back, destruction - in program order, under a fault record per operation: "
                   "throwing hash / equality functor, refused bucket array / BucketParams / crew block, throwing creator / copy / assignment, pvRelocateItems "
                   "interrupted after any number of items with any number of generations alive, copy construction failing after any number of items, "
                   "arbitrary pool traffic): for EVERY bucket description, relocation category, hash function, history over two containers and a node handle "
                   "(Insert / emplace / Add, Remove by key / predicate, Extract + re-insert, Reserve, Clear with and without shrink, copy assignment, move, "
                   "Swap, MergeTo) and every fault schedule the verified monitor accepts the whole event list and at every moment holds exactly the blocks "
                   "and element objects on the containers' books (C03_hash_history_ledger, no SpecOK needed); after destruction the verdict is accepted-and-"
                   "clean (C03_hash_history_balanced); Clear(true) leaves the container nothing but its crew block (C03_hash_clear_shrink); with SpecOK the "
                   "books are the table - C01's invariant holds, one element object per stored item (same keys), one bucket array of pvGetBufferSize(logCount) "
                   "bytes per generation, BucketParams iff a table exists, live objects = count (C03_hash_books_are_table). Tied to the code by c03_htledger: "
                   "after every operation the model predicts number and bytes of the manager's outstanding blocks (bucket arrays, BucketParams, crews - each "
                   "looked up by address in the manager's ledger with the size the container must have requested), pool buffers, live element objects, "
                   "the constructor / destructor runs of the operation (kinds without pools) and, for LimP4, the number of live memory-pool blocks "
                   "(MemPool::GetAllocateCount of the four pools = non-empty buckets). "
                   "Run time: every Allocate / Deallocate / Reallocate call and every constructor / destructor / assignment / functor use of "
                   "instrumented elements during random histories (with injected allocation failures, throwing copies, throwing hash / equality / "
                   "ordering functors, clear-with-shrink, copies, moves, swaps, merges between equal and unequal managers, destruction) of Array, "
                   "SegmentedArray, HashSet/HashMap (chained and open-addressing buckets), HashMultiMap, TreeSet/TreeMap, MemPool, DataTable and stdish "
                   "wrappers is written as one line, replayed by the Lean monitor, and must get the same verdict line by line; at the end of each "
                   "history both report zero outstanding blocks and zero live elements. "
                   "Hash multimap (Momo.MML, a ledger layer over the C08 model and over Momo.HTL for the key table): every operation of HashMultiMap.h emits its manager calls - ValueCrew::Data, the heap storage of every big value array with capacity * sizeof(Value) bytes in the order ArrayBucket::AddBackCrt / RemoveBack / Array::Shrink allocate and free it, pool buffers as observed traffic - and its key / value object events; for every history and fault schedule the monitor accepts the event list and holds exactly the books of both containers at every moment (C03_multimap_history_ledger), destruction leaves nothing (C03_multimap_history_balanced), Clear leaves the two crew blocks only (C03_multimap_clear). Tied to the code by c03_mmledger: outstanding blocks by class (key table blocks and crews by address and size, heap arrays by address with their byte sizes, pool buffers) and live objects after every operation."),
    "level_note": ("PARTIAL. C03_full quantifies over the C++ containers and is not a theorem: for the real code the verified monitor judges the "
                   "histories that the generators reach (see counters), it does not cover all histories. Proved for all histories / fault schedules "
                   "only for the traces of the models HTL (hash containers: complete manager and element events of every history; pool buffers of the chained bucket kinds are abstract - which buffers a pool holds is decided by MemPool (C09) and taken from the observed traffic, the model fixes only that Clear / destruction / a failed copy give all of them back; the relocation of a bucket's items into a larger pool block is not booked), Obj (RelocateCreate, CopyExec: element events), Pool (blockCount > 1 state machine: buffer "
                   "events, under the hypothesis FreshMallocs = the manager never answers with an outstanding address) and Val (block events of value "
                   "operations; its element events carry values, not identities, and are not translated); Arr / ArrSeg / BTree / MMap / "
                   "Table models emit no identity-carrying traces and are covered only by the monitor at run time. Memory safety proper (no read or write outside live blocks by the container code) is NOT proved: it is run-time evidence "
                   "(ASan + UBSan on every harness, freed blocks kept poisoned until the end of the history); the ledger sees only the addresses of "
                   "element objects at construction / destruction (touch events). Trusted: Lean kernel + standard axioms, the recorder in "
                   "harness/c03_ledger.h (that it reports every manager call and element event), g++/ASan."),
    "modules": ["Momo.Props.C03"],
    "theorems": [
        "Momo.Ledger.C03_monitor_sound",
        "Momo.Ledger.C03_monitor_complete",
        "Momo.Ledger.C03_balanced_iff",
        "Momo.Ledger.C03_outstanding_zero_iff",
        "Momo.Ledger.C03_block_released_once",
        "Momo.Ledger.C03_dealloc_matches_alloc",
        "Momo.Ledger.C03_block_counts",
        "Momo.Ledger.C03_touch_inside_live",
        "Momo.Ledger.C03_element_ended_once",
        "Momo.Ledger.C03_no_use_after_end",
        "Momo.Ledger.C03_use_alive",
        "Momo.Ledger.C03_element_counts",
        "Momo.Ledger.C03_obj_relocateCreate",
        "Momo.Ledger.C03_obj_copyExec",
        "Momo.Ledger.C03_obj_replay_is_monitor",
        "Momo.Ledger.C03_pool_history_all_returned",
        "Momo.Ledger.C03_pool_destroy_all_returned",
        "Momo.Ledger.C03_pool_ledger_is_monitor",
        "Momo.Ledger.C03_val_history_accepted",
        "Momo.Ledger.C03_val_history_all_destroyed",
        "Momo.HTL.C03_hash_history_ledger",
        "Momo.HTL.C03_hash_history_balanced",
        "Momo.HTL.C03_hash_clear_shrink",
        "Momo.HTL.C03_hash_books_are_table",
        "Momo.MML.C03_multimap_history_ledger",
        "Momo.MML.C03_multimap_history_balanced",
        "Momo.MML.C03_multimap_clear",
        "Momo.MML.C03_multimap_array_add",
        "Momo.MML.C03_multimap_array_remove",
    ],
    "harnesses": [
        {"name": "c03_array", "src": "c03_array.cpp", "sanitize": "asan", "flags": ["-DC03_PART=0"], "timeout_quick": 600},
        {"name": "c03_arrayx", "src": "c03_array.cpp", "sanitize": "asan", "flags": ["-DC03_PART=1"], "timeout_quick": 600},
        {"name": "c03_segarray", "src": "c03_array.cpp", "sanitize": "asan", "flags": ["-DC03_PART=2"], "timeout_quick": 600},
        {"name": "c03_hashset", "src": "c03_hash.cpp", "sanitize": "asan", "flags": ["-DC03_PART=0"], "timeout_quick": 600},
        {"name": "c03_hashmap", "src": "c03_hash.cpp", "sanitize": "asan", "flags": ["-DC03_PART=1"], "timeout_quick": 600},
        {"name": "c03_hashopen", "src": "c03_hash.cpp", "sanitize": "asan", "flags": ["-DC03_PART=2"], "timeout_quick": 600},
        {"name": "c03_hashold", "src": "c03_hash.cpp", "sanitize": "asan", "flags": ["-DC03_PART=3"], "timeout_quick": 600},
        # configuration corners (coverage group G4): LimP<7>/<15> with pointer state; pools with one block per buffer (Clear gives bucket arrays
        # back one by one); LimP4 with 48- / 32-bit pointer states (32: all blocks from an arena below 4 GB; the macro is needed because momo
        # ignores a manager's own ptrUsefulBitCount, observation O3)
        {"name": "c03_hashcfg", "src": "c03_hash.cpp", "sanitize": "asan", "flags": ["-DC03_PART=4"], "timeout_quick": 600},
        {"name": "c03_hashpool1", "src": "c03_hash.cpp", "sanitize": "asan", "flags": ["-DC03_PART=5"], "timeout_quick": 600},
        {"name": "c03_hashp48", "src": "c03_hash.cpp", "sanitize": "asan", "flags": ["-DC03_PART=6", "-DC03_PTRBITS=48", "-DMOMO_MEM_MANAGER_PTR_USEFUL_BIT_COUNT=48"], "timeout_quick": 600},
        {"name": "c03_hashp32", "src": "c03_hash.cpp", "sanitize": "asan", "flags": ["-DC03_PART=7", "-DC03_PTRBITS=32", "-DC03_ARENA32", "-DMOMO_MEM_MANAGER_PTR_USEFUL_BIT_COUNT=32"], "timeout_quick": 600},
        {"name": "c03_treeset", "src": "c03_tree.cpp", "sanitize": "asan", "flags": ["-DC03_PART=0"], "timeout_quick": 600},
        {"name": "c03_treemap", "src": "c03_tree.cpp", "sanitize": "asan", "flags": ["-DC03_PART=1"], "timeout_quick": 600},
        {"name": "c03_treesmall", "src": "c03_tree.cpp", "sanitize": "asan", "flags": ["-DC03_PART=2"], "timeout_quick": 600},
        {"name": "c03_multimap", "src": "c03_misc.cpp", "sanitize": "asan", "flags": ["-DC03_PART=0"], "timeout_quick": 600},
        {"name": "c03_mempool", "src": "c03_misc.cpp", "sanitize": "asan", "flags": ["-DC03_PART=1"], "timeout_quick": 600},
        {"name": "c03_datatable", "src": "c03_misc.cpp", "sanitize": "asan", "flags": ["-DC03_PART=2"], "timeout_quick": 600},
        {"name": "c03_stdish", "src": "c03_misc.cpp", "sanitize": "asan", "flags": ["-DC03_PART=3"], "timeout_quick": 600},
        {"name": "c03_htledger_open", "src": "c03_htledger.cpp", "sanitize": "asan", "flags": ["-DVF_PART=0"], "timeout_quick": 600},
        {"name": "c03_htledger_open2", "src": "c03_htledger.cpp", "sanitize": "asan", "flags": ["-DVF_PART=1"], "timeout_quick": 600},
        {"name": "c03_htledger_chain", "src": "c03_htledger.cpp", "sanitize": "asan", "flags": ["-DVF_PART=2"], "timeout_quick": 600},
        {"name": "c03_mmledger", "src": "c03_mmledger.cpp", "sanitize": "asan", "flags": ["-DVF_PART=0"], "timeout_quick": 600},
        {"name": "c03_mmledger2", "src": "c03_mmledger.cpp", "sanitize": "asan", "flags": ["-DVF_PART=1"], "timeout_quick": 600},
    ],
    "rule": ("14 executables (array x3, hash x4, tree x3, multimap, mempool, datatable, stdish), 45 container configurations. Each history: two "
             "containers of one type (stdish: eight) over stateful managers of equal or unequal identity classes (chosen per history), 55-120 random "
             "operations of the container's whole mutating API incl. copy / move construction and assignment, Swap, merges, extraction and "
             "re-insertion, range operations, Reserve / Shrink / Clear(true|false), about one operation in three with an armed fault (k-th allocation "
             "or Reallocate refused, k-th element copy throws, k-th hash / equality / ordering call throws - functor faults only with "
             "extraCheckMode = nothing), then destruction of all but one container, Clear-with-shrink of the last (must leave only the blocks an "
             "empty container holds and no element), destruction. Directed steps: TreeSet/TreeMap MergeTo into an empty destination with an equal "
             "manager, source destroyed first, then node allocations (finding F27); DataTable copying constructors with the k-th row import failing, "
             "probed in a forked child and then run in-process (finding F28). Every manager call / element construction, destruction, copy source, "
             "assignment and functor argument / address of constructed and destroyed elements inside manager blocks is one op line for the Lean "
             "monitor. evaluations = histories (quick 1440, thorough 21000 over two seeds); distinct_nontrivial = distinct (family, operation, "
             "exception kind, k) that exited with an exception. "
             "c03_htledger (model level, engine htledger; 3 executables, 19 instantiations of HashSet / HashMap: Open2N2<1..3>, OpenN1<3,7>, Open8, One - no "
             "pools - and LimP4<2..4>, LimP<3>, LimP1<3>, UnlimP - pools - over trivially relocatable, nothrow-move, copy-only and copy-only-with-throwing-"
             "assignment keys, fast and slow hash): 8 runs x 220 operations quick (24 x 900 thorough) per instantiation on two containers and a node handle - "
             "insert (1/3 under a fault: bucket array / BucketParams / pool buffer refused, copy throws, hash or equality functor throws; migrations kept "
             "failing so that 2-3 generations pile up), find, remove (throwing assignment, throwing equality), remove-if (assignment throwing at the n-th removal), "
             "reserve, clear with and without shrink, extract / re-insert / drop, copy assignment with a fault at every stage (crew, array, params, n-th item), "
             "move, swap, merge, and the monitor's own verdict over the whole event list. distinct_nontrivial there = distinct (bucket kind, operation, "
             "exception, fault tokens) that exited with an exception, plus the histories. "
             "Added for coverage (4 hash executables, 13 configurations, same histories): c03_hashcfg = HashBucketLimP<7> / <15> with pointer state "
             "(24-byte nothrow-move and copy-only keys, 32-byte trivially relocatable pairs); c03_hashpool1 = LimP<3>, LimP<5, no pointer state>, "
             "LimP1<3>, LimP4<4> over MemPoolParams<1> (no DeallocateAll: every bucket array is given back by Clear / destruction one by one); "
             "c03_hashp48 / c03_hashp32 = LimP4<4>, <2>, <3> with 6- / 4-byte pointer states (32: every block from an arena below 4 GB). "
             "c03_mmledger (model level, engine mmledger; 2 executables, 4 instantiations of HashMultiMap over open-addressing key tables Open8 / OpenN1<3> / Open2N2<3>, nothrow-move keys, nothrow-move and copy-only values, maxFastCount 7 / 2 / 1 / 4): 5 runs x 260 operations quick (16 x 900 thorough) per instantiation on two containers - Add(key, value) (1/3 under a fault: first allocation refused = bucket array / pool buffer / heap storage, k-th copy throws = key copy, value copy, a copy inside the relocation of copy-only values, bucket array refused, equality functor throws), Add(keyIter, value), InsertKey, Remove(keyIter, index) (refused allocation inside Array::Shrink), Remove(pairFilter), RemoveValues, RemoveKey (throwing equality), ResetKey, Clear, copy assignment with a fault at any stage, move, swap, the monitor's verdict; grow / drain phases drive single arrays through fast -> heap -> grown heap -> shrunk heap -> released. After every operation: contents checksum, key table layout, outstanding blocks by class (key table blocks + crews by address and size, heap arrays by address with capacity * sizeof(Value), pool buffers), live objects."),
    "runtime_only": ["ASan/UBSan on every history; blocks given back are kept poisoned until the end of the history, so a later access aborts",
                     "absence of out-of-bounds accesses inside live blocks",
                     "that the recorder sees every event (elements are instrumented types; plain integers have block events only)"],
    "not_modelled": ["container-level models Arr, ArrSeg, BTree, Table emit no ledger traces: no theorem that THEIR histories are balanced (the hash family has one: Momo.HTL; the hash multimap has one: Momo.MML)",
                     "hash multimap (Momo.MML): which buffers the value-array pools hold (observed traffic; Clear / destruction / failed copy return all: pools with blockCount > 1), the pool blocks inside the buffers (fast blocks, Array headers) are not manager blocks and not booked; order deviations listed in the header of Model/MMLedger.lean (first value of a new key booked after the key table's migration; RelocateCreate of copy-only values booked item by item; pvClearValueArrays in book order); key tables with pools (chained bucket kinds) are modelled (OpT.ka / kb) but the harness runs open-addressing key tables only; no formal refinement theorem MML.St.mm = MMap.MM step by step (tied by the harness: contents checksum incl. representation)",
                     "hash family (Momo.HTL): which buffers a memory pool holds (taken from the observed traffic; only 'Clear / destruction / failed copy return all' is the model's own), the relocation of a chained bucket's items into a larger pool block (element objects of the chained kinds are tracked per item; constructor / destructor counts are compared for the open-addressing kinds and One only), the heap arrays of UnlimP buckets beyond their fast storage (booked as pool traffic), Insert(range), ResetKey, the initializer-list constructors, HashMultiMap; AssignAnyway is booked as a use of both objects whatever technique (move assignment, swap, rotation) the item type selects; C03_hash_books_are_table carries the copy-fits side condition of C01's history theorem",
                     "libstdc++ internals behind stdish::pool_allocator (C20)"],
}
