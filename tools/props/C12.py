"""Registry entry of property C12 (see tools/registry.py)."""

PROP = {
    "id": "C12",
    "level": "proof",
    "technique": ("Lean 4 proof (bit-field arithmetic of the hash-probe bytes, exact value of the reconstructed code, invariant "
                  "'the code agrees with the true hash on the bits of its group' by induction over growth chains, byte-level "
                  "bucket invariant by induction over add/remove histories) + function-, bucket- and table-level correspondence "
                  "on the real bucket classes and real HashSets"),
    "level_text": ("Kernel-checked theorems for every 64-bit hash code, every table size 2^L with L <= 57, every displacement, every new size, "
                   "every occupancy of the tables and every chain of strictly growing sizes, for the three bucket kinds that keep hash parts "
                   "(LimP4, Open2N2, One): whenever GetHashCodePart does not call the full getter its result is exactly the low bits of the group "
                   "plus the seven top bits of the true hash code, it selects the same start bucket, short hash and hash-probe byte as the true "
                   "code; re-insertion along any growth chain lands where a full rehash lands and is found by a lookup with the true hash; the "
                   "full getter is skipped only when the stored byte is a genuine hash-probe byte whose bits cover the new index; the byte "
                   "array of a LimP4 / Open2N2 bucket keeps, over every add/remove history, the byte of the element that is at each position now. "
                   "The executable model is compared with the real bucket classes on every run (all L, all in-range displacements, all L', "
                   "hashCount 4/6/8 - 6 and 8 through builds with the global macro MOMO_MEM_MANAGER_PTR_USEFUL_BIT_COUNT = 48 / 32, not through per-manager constants, which momo ignores: observation O3) and with real HashSets of slow-hash keys (hash evaluations counted during every relocation, twin set that "
                   "recomputes every hash must have the identical layout); layout constants are re-extracted from the headers. pvCalcShortHash, pvGetProbeShift, pvSetHashProbe, pvGetCount, IsFull, GetHashCodePart and the byte compaction of Remove of BucketLimP4, pvCalcShortHash, pvGetProbeShift, pvGetCount, IsFull, the metadata part of AddCrt / Remove and GetHashCodePart of BucketOpen2N2, pvGetHashState (4 widths) and GetHashCodePart of BucketOne are additionally TRANSLATED from the header text on every run (tools/translate.py, tools/trspecs/HashMeta.py; index functions: tools/trspecs/HashProbe.py) and proved equal to the model functions (Proof/TrEqHashMeta.lean); reconstruction, bits-suffice, chain and still-found theorems are proved for the generated definitions themselves (C12_*_translated)."
                   " Second wave (tools/trspecs/Wave2Meta.py, Proof/TrEqWave2Bucket.lean): the metadata writes of all five paths of BucketLimP4::AddCrt (null bucket + pvAdd0, "
                   "case 1 / case 2 / default of the switch + pvAdd<k>, the in-place block), one checked fragment per case composed from the translated pvSetHashProbe / "
                   "pvCalcShortHash, are proved equal to the model step P4.Bucket.addCrt (C12_limp4_addCrt_translated)."
                   " Third wave (tools/trspecs/Wave3.py, Proof/TrEqWave3.lean): the class constants hashCodeShift / maskEmpty / emptyHashProbe of BucketLimP4, "
                   "hashCodeShift of BucketOpen2N2 and BucketLimP4::WasFull as translated are the model's (C12_limp4_constants_translated, C12_open2n2_hashCodeShift_translated, "
                   "C12_limp4_WasFull_translated); BucketLim4 maxCount / pvGetMemPoolIndex(), BucketOne hashCodeShift and UIntMath::DivByConst compute the plain arithmetic (C12_lim4_arith_translated)."),
    "level_note": ("Trusted: Lean kernel, the three standard axioms, extractor, correspondence harness (g++, -fno-access-control). Modelled not "
                   "verified: the C++ byte layout of mShortHashes/mHashData/mHashState and the pointer-state bits; that HashSet::pvRelocateItems "
                   "passes (bucket index, old log, new log) as modelled and that growth is strict (MOMO_CHECK(shift > 0)) is read off the source "
                   "and exercised by the table-level run. Theorems are stated for L <= 57 (the property's range; the top seven bits of the "
                   "hash are the short hash)."),
    "modules": ["Momo.Props.C12"],
    "theorems": [
        "Momo.HashMeta.C12_limp4_reconstruct",
        "Momo.HashMeta.C12_open2n2_reconstruct",
        "Momo.HashMeta.C12_one_reconstruct",
        "Momo.HashMeta.C12_reconstruction_only_when_bits_suffice",
        "Momo.HashMeta.C12_open2n2_first_size_byte_never_read",
        "Momo.HashMeta.C12_chain",
        "Momo.HashMeta.C12_growth_step",
        "Momo.HashMeta.C12_still_found",
        "Momo.HashMeta.C12_limp4_meta_inv",
        "Momo.HashMeta.C12_open2n2_meta_inv",
        "Momo.HashMeta.C12_limp4_bucket_part",
        "Momo.HashMeta.C12_limp4_reconstruct_translated",
        "Momo.HashMeta.C12_open2n2_reconstruct_translated",
        "Momo.HashMeta.C12_one_reconstruct_translated",
        "Momo.HashMeta.C12_reconstruction_only_when_bits_suffice_translated",
        "Momo.HashMeta.C12_open2n2_only_when_bits_suffice_translated",
        "Momo.HashMeta.C12_chain_translated",
        "Momo.HashMeta.C12_still_found_translated",
        "Momo.HashMeta.C12_limp4_meta_translated",
        "Momo.HashMeta.C12_limp4_addCrt_translated",
        "Momo.HashMeta.C12_limp4_constants_translated",
        "Momo.HashMeta.C12_open2n2_hashCodeShift_translated",
        "Momo.HashMeta.C12_limp4_WasFull_translated",
        "Momo.HashMeta.C12_lim4_arith_translated",
    ],
    "harnesses": [
        {"name": "c12_hashmeta", "src": "c12_hashmeta.cpp"},
        {"name": "c12_table_limp4_one", "src": "c12_table.cpp", "flags": ["-DC12_PART=1"]},
        {"name": "c12_table_open", "src": "c12_table.cpp", "flags": ["-DC12_PART=2"]},
        # 6 / 8 metadata bytes (48- / 32-bit pointer states): reachable only through the global macro today (observation O3: a manager's own
        # ptrUsefulBitCount is ignored, harness/common/verif_ptrbits.h; c12_table part 1 records it as counter note.O3_*)
        {"name": "c12_hashmeta_p48", "src": "c12_hashmeta.cpp", "flags": ["-DMOMO_MEM_MANAGER_PTR_USEFUL_BIT_COUNT=48"]},
        {"name": "c12_hashmeta_p32", "src": "c12_hashmeta.cpp", "flags": ["-DMOMO_MEM_MANAGER_PTR_USEFUL_BIT_COUNT=32"]},
        {"name": "c12_table_limp4_p48", "src": "c12_table.cpp", "flags": ["-DC12_PART=3", "-DMOMO_MEM_MANAGER_PTR_USEFUL_BIT_COUNT=48"]},
        {"name": "c12_table_limp4_p32", "src": "c12_table.cpp", "flags": ["-DC12_PART=4", "-DMOMO_MEM_MANAGER_PTR_USEFUL_BIT_COUNT=32"]},
    ],
    "rule": ("fn: for every L in 0..57 and every in-range displacement p < min(2^probeShift, 2^L) (plus two out-of-range ones) real buckets "
             "LimP4<1..4> with hashCount 4 (default build), 6 and 8 (builds c12_hashmeta_p48 / _p32 with the global macro; 8-, 6- and 4-byte pointer states; 8- and 16-byte items) and Open2N2<1..3> receive one "
             "element per case (position rotating over the bucket's slots) with boundary hash codes (0, all ones, alternating, single bits "
             "around L and around the group boundary 8q+1, 2^k-1) and random ones; the stored byte and short hash, the full-getter mask over "
             "every L' in [L,57] and the reconstructed code are compared with the model; every reconstructed code is checked against the true "
             "code by real AddCrt calls in the new table. One: six state widths, single bits + random. bkt: random add/remove histories "
             "(4..40 operations) per bucket instantiation, every metadata byte, count, pool index, IsFull/WasFull compared after each "
             "operation, GetHashCodePart of every element for three new sizes. tbl: real HashSets of a key type with "
             "IsFastNothrowHashable=false (9 bucket configurations x 6 clean + 8 fault runs; start sizes 2^0..2^5, growth shifts 1..3 and "
             "Reserve jumps of up to 7 doublings, five hash families incl. clustered low bits and all-ones neighbourhood, removals): every "
             "relocation's hash-evaluation count vs the model over the real bytes, all keys findable, twin set that always rehashes has "
             "the identical per-bucket element order; fault runs keep old generations alive so that later relocations span several "
             "generations. distinct_nontrivial counts distinct (configuration, L, p, slot) cases / history steps with a reconstructed "
             "code / counted relocations. hashCount 6 and 8 are really exercised only by the builds c12_hashmeta_p48 / _p32 (all LimP4 drivers "
             "with 6 resp. 8 metadata bytes) and c12_table_limp4_p48 / _p32 (LimP4<1..4> tables over a manager with 48 / 32 useful pointer bits, 32: "
             "arena below 4 GB; twin tables without hash parts use the 6- / 4-byte pointer state with state mask 0): without the macro every "
             "manager gets 64 bits (observation O3)."),
    "runtime_only": ["'every key stays findable' and 'same layout as the always-rehash twin' at table level are observed on the runs, "
                     "the corresponding theorems (C12_chain, C12_still_found) are about the model"],
    "not_modelled": ["memory pools / item storage of LimP4 (only the metadata bytes, count, pool index)",
                     "max-probe bytes of Open2N2 (C13)",
                     "32-bit size_t builds (pointer widths 48 / 32 are covered through builds with -DMOMO_MEM_MANAGER_PTR_USEFUL_BIT_COUNT=48 / 32; a per-manager ptrUsefulBitCount has no effect in momo today, observation O3)",
                     "the whole-table state machine with several generations (C01/C11); here one element is followed through the chain "
                     "with the occupancy of each new table as a universally quantified parameter"],
}
