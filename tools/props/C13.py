"""Registry entry of property C13 (see tools/registry.py)."""

PROP = {
    "id": "C13",
    "level": "proof",
    "technique": "Lean 4 proof (induction over update lists, injectivity of triangular numbers mod 2^k) + function-level correspondence on the real bucket classes",
    "level_text": ("Kernel-checked theorems for every probe value < 2^64, every update order, every table size 2^L: the decoded bound of both "
                   "max-probe encoders covers every recorded displacement, both probe sequences are permutations of the buckets, the insertion "
                   "loop reports 'full' only when all buckets are full. The models are executable and compared with the real bucket classes "
                   "(exhaustively for small probes/tables) on every run; encoder constants are re-extracted from the headers."
                   ' Both encoders are additionally TRANSLATED from the header text on every run (tools/translate.py: UpdateMaxProbe, pvUpdateMaxProbe with its while loop, pvGetMaxProbe / GetMaxProbe, byte truncations and size_t wrap-around explicit) and the bound theorems are proved for the generated definitions themselves (C13_bound_*_translated; Open2N2 for displacements <= 2^63, above 2^64-2^57 the real decode would wrap).'
                   ' In-bucket part of "a present key is always found": BucketOpenN1<1..7, reverse> and BucketOpen8 are modelled at BYTE level (Momo.OpenB: mData with the last slot doubling as count byte, ptCalcShortHash, AddCrt, Remove with its compaction, IsFull / WasFull, the scalar Find loop, the SSE2 movemask of Open8 by the specification of the intrinsics, the 64-bit SWAR expression and its ctz / mask &= mask - 1 loop as written). Proved for every add / remove history, every maxCount 1..7, both item orders, every 64-bit hash code: the byte invariant (occupied slot = short hash of its item, other slots = empty marker / count byte, which no short hash equals); under it Find, for EVERY scan order, only tests occupied slots with the searched short hash, returns a slot iff an accepted matching item exists, and is order-independent when keys are distinct; the SWAR expression equals, for every 8-byte word and short-hash byte, the flag bits of the lanes that match or differ in bit 0 only above a flagged lane (lane-wise borrow analysis of the 64-bit subtraction, no case enumeration of words); the SSE2 variant visits exactly the scalar candidates; the SWAR variant visits a superset (proper for some reachable buckets, C13_open8_swar_not_exact) whose extra members are occupied slots and which yields the scalar result for every predicate consistent with the short hashes. ptCalcShortHash, pvGetState, pvGetShortHash / ptGetItemPtr index, pvGetCount, IsFull, WasFull, the byte writes of AddCrt / Remove, the SWAR mask statements, lane index, loop test and step, the candidate test of the scalar loop and the table of pvCountTrailingZeros15 are TRANSLATED from the headers on every run (tools/trspecs/OpenBytes.py) and the invariant / mask theorems are restated for the generated definitions (C13_open*_translated).'),
    "level_note": ("Trusted: Lean kernel, the three standard axioms, extractor, correspondence harness (g++, -fno-access-control). Modelled not "
                   "verified: the C++ byte layout of mState/mData; 64-bit wrap-around is excluded by the hypothesis p < 2^64 and shown not to occur."),
    "modules": ["Momo.Props.C13"],
    "theorems": [
        "Momo.Probe.C13_bound_open2n2",
        "Momo.Probe.C13_state_fits_open2n2",
        "Momo.Probe.C13_bound_openN1",
        "Momo.Probe.C13_seq_visits_all",
        "Momo.Probe.C13_insert_fails_only_when_full",
        "Momo.Probe.C13_lookup_examines",
        "Momo.Probe.C13_bound_open2n2_translated",
        "Momo.Probe.C13_bound_openN1_translated",
        "Momo.OpenB.C13_openbytes_inv_history",
        "Momo.OpenB.C13_openbytes_inv_meaning",
        "Momo.OpenB.C13_openbytes_find_every_order",
        "Momo.OpenB.C13_open8_swar_mask",
        "Momo.OpenB.C13_open8_swar_flags",
        "Momo.OpenB.C13_open8_find",
        "Momo.OpenB.C13_open8_swar_not_exact",
        "Momo.OpenB.C13_openbytes_inv_history_translated",
        "Momo.OpenB.C13_open8_find_translated",
    ],
    "harnesses": [
        {"name": "c13_probe", "src": "c13_probe.cpp"},
        {"name": "c13_openbytes", "src": "c13_openbytes.cpp"},
        {"name": "c13_openbytes_swar", "src": "c13_openbytes.cpp", "flags": ["-DOB_SWAR"]},
    ],
    "rule": ("enc: every probe 0..2^16 (thorough 2^20) from a fresh state on all 6 Open2N2 and 8 OpenN1/Open8 bucket instantiations, plus random "
             "boundary-biased update sequences up to 2^62 (all 6 orders of 3-element sets); seq: real GetNextBucketIndex enumerated for all homes of "
             "tables 2^0..2^5 and summarised (checksum + distinct count) for 2^6..2^20 (thorough 2^24); fill: real HashSets that cannot grow are filled "
             "until 'Hash table is full', every landing bucket compared with the model's addProbe. distinct_nontrivial counts distinct update "
             "sequences / (kind,L,home) enumerations / fill rounds. c13_openbytes (built with SSE2 and, as c13_openbytes_swar, with the SWAR variant of BucketOpen8::Find): real "
             "BucketOpenN1<1..7, reverse/forward> and BucketOpen8 objects driven through random AddCrt / Remove / Clear / UpdateMaxProbe histories (14 rounds x 60 steps quick, 70 x 120 "
             "thorough per instantiation; 4x for Open8) with seven short-hash families (all equal; s and s^1; 246/247 = empty marker - 1, - 2; 0/1; any; random codes; special values); after every "
             "step all maxCount+1 raw bytes, count, IsFull, WasFull and three Find calls (hash codes equal to / neighbouring stored short hashes, arbitrary predicate masks over the slots: returned slot "
             "and the ordered list of slots on which the predicate was evaluated) are compared with the model; property level: every item found in its slot, absent keys not found, the predicate "
             "never evaluated on a slot without item, storage order of the items. raw suites: arbitrary bytes written into mData (every lane equal, s/s^1 borrow chains, +-1, 248..255, one matching lane in "
             "each position, random), Find's candidate set and order compared with the model. distinct_nontrivial there = distinct (instantiation, item count, byte image) states."),
    "runtime_only": [],
    "not_modelled": ["the SSE2 intrinsics of BucketOpen8::Find are modelled by their specification (bit j of the movemask = byte j equals the short hash), not translated; MOMO_PREFETCH; big-endian / 32-bit builds",
                     "std::fill_n of pvSetEmpty (constructor / Clear bytes are compared by the correspondence only)",
                     "placement invariant of the whole table (I2) is part of C01's model"],
}
