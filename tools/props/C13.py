"""Registry entry of property C13 (see tools/registry.py)."""

PROP = {
    "id": "C13",
    "level": "proof",
    "technique": "Lean 4 proof (induction over update lists, injectivity of triangular numbers mod 2^k) + function-level correspondence on the real bucket classes",
    "level_text": ("Kernel-checked theorems for every probe value < 2^64, every update order, every table size 2^L: the decoded bound of both "
                   "max-probe encoders covers every recorded displacement, both probe sequences are permutations of the buckets, the insertion "
                   "loop reports 'full' only when all buckets are full. The models are executable and compared with the real bucket classes "
                   "(exhaustively for small probes/tables) on every run; encoder constants are re-extracted from the headers."
                   ' Both encoders are additionally TRANSLATED from the header text on every run (tools/translate.py: UpdateMaxProbe, pvUpdateMaxProbe with its while loop, pvGetMaxProbe / GetMaxProbe, byte truncations and size_t wrap-around explicit) and the bound theorems are proved for the generated definitions themselves (C13_bound_*_translated; Open2N2 for displacements <= 2^63, above 2^64-2^57 the real decode would wrap).'),
    "level_note": ("Trusted: Lean kernel, the three standard axioms, extractor, correspondence harness (g++, -fno-access-control). Modelled not "
                   "verified: the C++ byte layout of mState/mData; 64-bit wrap-around is excluded by the hypothesis p < 2^64 and shown not to occur."),
    "modules": ["Momo.Props.C13"],
    "theorems": [
        "Momo.Probe.C13_bound_open2n2",
        "Momo.Probe.C13_state_fits_open2n2",
        "Momo.Probe.C13_bound_openN1",
        "Momo.Probe.C13_seq_visits_all",
        "Momo.Probe.C13_insert_fails_only_when_full",
        "Momo.Probe.C13_lookup_examines",
        "Momo.Probe.C13_bound_open2n2_translated",
        "Momo.Probe.C13_bound_openN1_translated",
    ],
    "harnesses": [
        {"name": "c13_probe", "src": "c13_probe.cpp"},
    ],
    "rule": ("enc: every probe 0..2^16 (thorough 2^20) from a fresh state on all 6 Open2N2 and 8 OpenN1/Open8 bucket instantiations, plus random "
             "boundary-biased update sequences up to 2^62 (all 6 orders of 3-element sets); seq: real GetNextBucketIndex enumerated for all homes of "
             "tables 2^0..2^5 and summarised (checksum + distinct count) for 2^6..2^20 (thorough 2^24); fill: real HashSets that cannot grow are filled "
             "until 'Hash table is full', every landing bucket compared with the model's addProbe. distinct_nontrivial counts distinct update "
             "sequences / (kind,L,home) enumerations / fill rounds."),
    "runtime_only": [],
    "not_modelled": ["SSE2 in-bucket search of BucketOpen8 (exercised by the fill suite, not modelled)",
                     "placement invariant of the whole table (I2) is part of C01's model"],
}
