#!/usr/bin/env python3
"""T1b translator: regenerates lean/Momo/Translated.lean from the *current* text of small pure
functions of /repo (integer kernels: index arithmetic, probe-bound encoders, growth rules, split rule).

Unlike tools/extract.py (which reads constants out of pinned code shapes) this reads the *code*:
a function body written in the supported C++ subset is parsed (own tokenizer + Pratt parser — no
clang needed, templates are never instantiated) and emitted as a Lean `def` over `Nat` that performs
the same operations in the same order with the C++ integer semantics made explicit:

  size_t  + - * <<            -> Seg.add64 / sub64 / mul64 / shl64   (reduction mod 2^64)
  size_t  >> & | ^ / %        -> >>> &&& ||| ^^^ / %                  (cannot leave the range)
  uint8_t / uint16_t          -> integer promotion to `int`: exact arithmetic on Nat, reduction
                                 mod 2^8 / 2^16 where the C++ converts back (static_cast, assignment
                                 to a narrow variable or field)
  `int` arithmetic            -> exact on Nat; only + * << >> & | and comparisons are accepted,
                                 operands are non-negative by construction (overflow of int is UB
                                 and outside the model)
  while (c) { … }             -> Tr.whileN fuel …   (fuel from the table below; the equivalence proof
                                 must show the fuel suffices)
  if / else / early return / ?: / ++x / --x / op= / MOMO_ASSERT (dropped, listed as a comment)
  reference outputs and fields written by the function become components of the result tuple.

Anything outside the subset makes the translation of that function fail; the failure is reported as
`missing` (the obligation cannot be re-checked), exactly like a constant whose pattern is gone.
Lean side: lean/Momo/Proof/TranslatedEq.lean proves each generated def equal to the hand-written model
function the theorems are about, so a changed function body breaks a named equivalence theorem.
"""
import re, os, sys

# ---------------------------------------------------------------- C++ subset: tokenizer

TOK = re.compile(r"""
    (?P<num>0[xX][0-9a-fA-F]+|\d+)(?:ull|ULL|ul|UL|u|U)?
  | (?P<id>[A-Za-z_][A-Za-z_0-9]*(?:<>)?(?:::[A-Za-z_][A-Za-z_0-9]*(?:<>)?)*)
  | (?P<op><<=|>>=|\+\+|--|<<|>>|<=|>=|==|!=|&&|\|\||\+=|-=|\*=|/=|%=|&=|\|=|\^=|[-+*/%&|^~!<>=?:;,(){}\[\]])
  | (?P<ws>\s+)
""", re.X)


def tokenize(src):
    out, i = [], 0
    while i < len(src):
        m = TOK.match(src, i)
        if not m:
            raise SyntaxError("cannot tokenize at: %r" % src[i:i + 30])
        i = m.end()
        if m.lastgroup == "ws":
            continue
        if m.lastgroup == "num":
            out.append(("num", int(m.group("num"), 0)))
        elif m.lastgroup == "id":
            out.append(("id", m.group("id")))
        else:
            out.append(("op", m.group("op")))
    out.append(("eof", None))
    return out


TYPES = {"size_t": "u64", "uint64_t": "u64", "uint8_t": "u8", "uint16_t": "u16", "uint32_t": "u32", "bool": "bool", "int": "int",
         "UInt": "u64", "HashCode": "u64"}
BITS = {"u8": 8, "u16": 16, "u32": 32, "u64": 64}

# ---------------------------------------------------------------- parser -> AST (tuples)


class P:
    def __init__(self, toks):
        self.t, self.i = toks, 0

    def peek(self, k=0):
        return self.t[self.i + k]

    def next(self):
        x = self.t[self.i]
        self.i += 1
        return x

    def accept(self, kind, val=None):
        k, v = self.peek()
        if k == kind and (val is None or v == val):
            self.i += 1
            return True
        return False

    def expect(self, kind, val=None):
        k, v = self.next()
        if k != kind or (val is not None and v != val):
            raise SyntaxError("expected %s %r, got %s %r" % (kind, val, k, v))
        return v

    # ---- expressions
    BIN = {"||": 1, "&&": 2, "|": 3, "^": 4, "&": 5, "==": 6, "!=": 6, "<": 7, "<=": 7, ">": 7, ">=": 7,
           "<<": 8, ">>": 8, "+": 9, "-": 9, "*": 10, "/": 10, "%": 10}

    def expr(self, minp=0):
        lhs = self.unary()
        while True:
            k, v = self.peek()
            if k == "op" and v == "?" and minp <= 0:
                self.next()
                a = self.expr(0)
                self.expect("op", ":")
                b = self.expr(0)
                lhs = ("cond", lhs, a, b)
                continue
            if k == "op" and v in self.BIN and self.BIN[v] >= max(minp, 1):
                p = self.BIN[v]
                self.next()
                rhs = self.expr(p + 1)
                lhs = ("bin", v, lhs, rhs)
                continue
            return lhs

    def unary(self):
        k, v = self.peek()
        if k == "op" and v == "!":
            self.next()
            return ("not", self.unary())
        if k == "op" and v == "(":
            self.next()
            e = self.expr(0)
            self.expect("op", ")")
            return self.postfix(e)
        if k == "num":
            self.next()
            return ("num", v, "int")
        if k == "id":
            self.next()
            if v == "true" or v == "false":
                return ("boollit", v == "true")
            if v == "static_cast":
                self.expect("op", "<")
                ty = self.expect("id")
                self.expect("op", ">")
                self.expect("op", "(")
                e = self.expr(0)
                self.expect("op", ")")
                return ("cast", TYPES[ty], e)
            if v in TYPES and self.peek() == ("op", "{"):      # size_t{1}, uint8_t{3}, size_t{mState[0]}
                self.next()
                e = self.expr(0)
                self.expect("op", "}")
                return ("cast", TYPES[v], e)
            if self.peek() == ("op", "("):                       # call
                self.next()
                args = []
                if not self.accept("op", ")"):
                    while True:
                        args.append(self.expr(0))
                        if self.accept("op", ")"):
                            break
                        self.expect("op", ",")
                return self.postfix(("call", v, args))
            return self.postfix(("var", v))
        raise SyntaxError("unexpected token %s %r" % (k, v))

    def postfix(self, e):
        while self.peek() == ("op", "["):
            self.next()
            idx = self.expr(0)
            self.expect("op", "]")
            e = ("index", e, idx)
        return e

    # ---- statements
    def block(self):
        self.expect("op", "{")
        out = []
        while not self.accept("op", "}"):
            out.append(self.stmt())
        return out

    def stmt_or_block(self):
        if self.peek() == ("op", "{"):
            return self.block()
        return [self.stmt()]

    def stmt(self):
        k, v = self.peek()
        if k == "op" and v == "{":
            return ("block", self.block())
        if k == "id" and v == "return":
            self.next()
            if self.accept("op", ";"):
                return ("return", None)
            e = self.expr(0)
            self.expect("op", ";")
            return ("return", e)
        if k == "id" and v == "if":
            self.next()
            self.expect("op", "(")
            c = self.expr(0)
            self.expect("op", ")")
            a = self.stmt_or_block()
            b = []
            if self.peek() == ("id", "else"):
                self.next()
                b = self.stmt_or_block()
            return ("if", c, a, b)
        if k == "id" and v == "while":
            self.next()
            self.expect("op", "(")
            c = self.expr(0)
            self.expect("op", ")")
            return ("while", c, self.stmt_or_block())
        if k == "id" and v == "MOMO_ASSERT":
            self.next()
            self.expect("op", "(")
            e = self.expr(0)
            self.expect("op", ")")
            self.expect("op", ";")
            return ("assert", e)
        if k == "id" and v in TYPES and self.peek(1)[0] == "id":   # declaration
            self.next()
            name = self.expect("id")
            init = None
            if self.accept("op", "="):
                init = self.expr(0)
            self.expect("op", ";")
            return ("decl", TYPES[v], name, init)
        if k == "op" and v in ("++", "--"):
            self.next()
            lv = self.unary()
            self.expect("op", ";")
            return ("assign", lv, ("bin", "+" if v == "++" else "-", lv, ("num", 1, "int")))
        lv = self.unary()
        k, v = self.next()
        if k == "op" and v == ";" and lv[0] == "call":
            return ("callstmt", lv)
        if k == "op" and v == "=":
            e = self.expr(0)
        elif k == "op" and v in ("+=", "-=", "*=", "/=", "%=", "&=", "|=", "^=", "<<=", ">>="):
            e = ("bin", v[:-1], lv, self.expr(0))
        elif k == "op" and v in ("++", "--"):
            e = ("bin", "+" if v == "++" else "-", lv, ("num", 1, "int"))
        else:
            raise SyntaxError("unsupported statement starting with %r then %r" % (lv, v))
        self.expect("op", ";")
        return ("assign", lv, e)


# ---------------------------------------------------------------- translation to Lean

class Unsupported(Exception):
    pass


class Tr:
    def __init__(self, spec, allspecs):
        self.spec = spec
        self.all = allspecs
        self.types = dict(spec.get("params", []))
        self.types.update(dict(spec.get("fields", [])))
        self.types.update(dict(spec.get("outs", [])))
        self.consts = spec.get("consts", {})
        self.asserts = []
        self.outs = [n for n, _ in spec.get("outs", [])] + [n for n, _ in spec.get("fields", []) if n in spec.get("writes", [])]

    # --- lvalues: plain variable, `mState[0]` (field array with literal index), accessor call `pvGetMaxProbeExp()`
    def lv_name(self, lv):
        if lv[0] == "var":
            return self.rename(lv[1])
        if lv[0] == "index" and lv[1][0] == "var" and lv[2][0] == "num":
            return "%s_%d" % (lv[1][1], lv[2][1])
        if lv[0] == "call" and lv[1] in self.spec.get("accessors", {}) and not lv[2]:
            return self.spec["accessors"][lv[1]]
        raise Unsupported("lvalue %r" % (lv,))

    def rename(self, n):
        return self.spec.get("rename", {}).get(n, n)

    # --- expressions: returns (lean text, type)
    def ex(self, e):
        k = e[0]
        if k == "num":
            return str(e[1]), "int"
        if k == "boollit":
            return ("true" if e[1] else "false"), "bool"
        if k == "var" or k == "index" or (k == "call" and e[1] in self.spec.get("accessors", {}) and not e[2]):
            if k == "var" and e[1] in self.consts:
                txt, ty = self.consts[e[1]]
                return txt, ty
            n = self.lv_name(e)
            if n not in self.types:
                raise Unsupported("unknown identifier %s" % n)
            return n, self.types[n]
        if k == "cast":
            t, ty = self.ex(e[2])
            return self.conv(t, ty, e[1]), e[1]
        if k == "not":
            t, ty = self.ex(e[1])
            return "(!%s)" % self.as_bool(t, ty), "bool"
        if k == "cond":
            c, cty = self.ex(e[1])
            a, aty = self.ex(e[2])
            b, bty = self.ex(e[3])
            ty = self.common(aty, bty)
            return "(if %s then %s else %s)" % (self.as_bool(c, cty), self.conv(a, aty, ty), self.conv(b, bty, ty)), ty
        if k == "call":
            calls = self.spec.get("calls", {})
            if e[1] not in calls:
                raise Unsupported("call of %s" % e[1])
            lean, argtys, rty, extra = calls[e[1]]
            if len(argtys) != len(e[2]):
                raise Unsupported("arity of %s" % e[1])
            args = []
            for a, want in zip(e[2], argtys):
                t, ty = self.ex(a)
                args.append(self.conv(t, ty, want))
            return "(%s %s)" % (lean, " ".join(extra + args)), rty
        if k == "bin":
            op = e[1]
            a, aty = self.ex(e[2])
            b, bty = self.ex(e[3])
            if op in ("&&", "||"):
                return "(%s %s %s)" % (self.as_bool(a, aty), op, self.as_bool(b, bty)), "bool"
            if op in ("==", "!=", "<", "<=", ">", ">="):
                if aty == "bool" and bty == "bool" and op in ("==", "!="):
                    return "(%s %s %s)" % (a, op, b), "bool"
                a, b = self.as_num(a, aty), self.as_num(b, bty)
                lop = {"==": "=", "!=": "≠", "<": "<", "<=": "≤", ">": ">", ">=": "≥"}[op]
                return "(decide (%s %s %s))" % (a, lop, b), "bool"
            ty = "u64" if "u64" in (aty, bty) else "int"      # usual arithmetic conversions (narrow unsigned -> int)
            if op in ("<<", ">>"):
                ty = "u64" if aty == "u64" else "int"          # the result has the promoted type of the LEFT operand
            a, b = self.as_num(a, aty), self.as_num(b, bty)
            if ty == "u64":
                f = {"+": "Seg.add64 %s %s", "-": "Seg.sub64 %s %s", "*": "Seg.mul64 %s %s", "<<": "Seg.shl64 %s %s",
                     ">>": "%s >>> %s", "&": "%s &&& %s", "|": "%s ||| %s", "^": "%s ^^^ %s", "/": "%s / %s", "%": "%s %% %s"}[op]
            else:
                if op not in ("+", "*", "<<", ">>", "&", "|", "^", "/", "%"):
                    raise Unsupported("operator %s on int operands" % op)
                f = {"+": "%s + %s", "*": "%s * %s", "<<": "%s <<< %s", ">>": "%s >>> %s", "&": "%s &&& %s", "|": "%s ||| %s",
                     "^": "%s ^^^ %s", "/": "%s / %s", "%": "%s %% %s"}[op]
            return "(" + f % (a, b) + ")", ty
        raise Unsupported("expression %r" % (e,))

    def as_bool(self, t, ty):
        return t if ty == "bool" else "(decide (%s ≠ 0))" % t

    def as_num(self, t, ty):
        return "(if %s then 1 else 0)" % t if ty == "bool" else t

    def common(self, a, b):
        if a == b:
            return a
        if "u64" in (a, b):
            return "u64"
        return "int"

    def conv(self, t, src, dst):
        """value conversion src type -> dst type"""
        if src == dst:
            return t
        if dst == "bool":
            return self.as_bool(t, src)
        t = self.as_num(t, src)
        if src == "bool":
            return t
        if dst == "int":
            return t
        if re.fullmatch(r"\d+", t) and dst in BITS and int(t) < 2 ** BITS[dst]:
            return t
        if dst == "u64":
            return t if src in BITS else "(Seg.w64 %s)" % t     # narrow unsigned fits; int is reduced mod 2^64
        if dst in BITS:
            if src in BITS and BITS[src] <= BITS[dst]:
                return t
            return "(%s %% %d)" % (t, 2 ** BITS[dst])
        raise Unsupported("conversion %s -> %s" % (src, dst))

    # --- statements -> Lean expression producing the result tuple
    def assigned(self, stmts):
        out = []
        for s in stmts:
            if s[0] == "assign":
                n = self.lv_name(s[1])
                if n not in out:
                    out.append(n)
            elif s[0] == "if":
                for n in self.assigned(s[2]) + self.assigned(s[3]):
                    if n not in out:
                        out.append(n)
            elif s[0] == "while":
                for n in self.assigned(s[2]):
                    if n not in out:
                        out.append(n)
            elif s[0] == "block":
                for n in self.assigned(s[1]):
                    if n not in out:
                        out.append(n)
            elif s[0] == "callstmt" and s[1][1] in self.spec.get("tailcalls", {}):
                for n in self.spec["tailcalls"][s[1][1]][1]:
                    if n not in out:
                        out.append(n)
        return out

    def always_returns(self, stmts):
        for s in stmts:
            if s[0] == "return":
                return True
            if s[0] == "if" and s[3] and self.always_returns(s[2]) and self.always_returns(s[3]):
                return True
            if s[0] == "block" and self.always_returns(s[1]):
                return True
        return False

    def tuple_of(self, names):
        if not names:
            return "()"
        return names[0] if len(names) == 1 else "(" + ", ".join(names) + ")"

    def result(self, e):
        parts = []
        if e is not None:
            t, ty = self.ex(e)
            parts.append(self.conv(t, ty, self.spec["ret"]))
        elif self.spec.get("ret"):
            raise Unsupported("return without value")
        parts += self.outs
        return self.tuple_of(parts)

    def seq(self, stmts, ind, tail):
        """stmts then `tail()` (text of the continuation); returns Lean text"""
        if not stmts:
            return tail()
        s, rest = stmts[0], stmts[1:]
        pad = "  " * ind
        k = s[0]
        if k == "assert":
            try:
                self.asserts.append(self.ex(s[1])[0])
            except Unsupported:
                self.asserts.append("(untranslated assertion)")
            return self.seq(rest, ind, tail)
        if k == "block":
            return self.seq(s[1] + rest, ind, tail)
        if k == "return":
            return self.result(s[1])
        if k == "decl":
            self.types[s[2]] = s[1]
            if s[3] is None:
                return "let %s := 0\n%s%s" % (s[2], pad, self.seq(rest, ind, tail))   # uninitialised: never read before assignment in accepted code
            t, ty = self.ex(s[3])
            return "let %s := %s\n%s%s" % (s[2], self.conv(t, ty, s[1]), pad, self.seq(rest, ind, tail))
        if k == "assign":
            n = self.lv_name(s[1])
            if n not in self.types:
                raise Unsupported("assignment to unknown %s" % n)
            t, ty = self.ex(s[2])
            return "let %s := %s\n%s%s" % (n, self.conv(t, ty, self.types[n]), pad, self.seq(rest, ind, tail))
        if k == "if":
            c, cty = self.ex(s[1])
            c = self.as_bool(c, cty)
            ra, rb = self.always_returns(s[2]), self.always_returns(s[3])
            if ra and not rb:
                a = self.seq(s[2], ind + 1, lambda: "()")
                b = self.seq(s[3] + rest, ind + 1, tail)
                return "if %s then\n%s  %s\n%selse\n%s  %s" % (c, pad, a, pad, pad, b)
            if ra and rb:
                a = self.seq(s[2], ind + 1, lambda: "()")
                b = self.seq(s[3], ind + 1, lambda: "()")
                return "if %s then\n%s  %s\n%selse\n%s  %s" % (c, pad, a, pad, pad, b)
            if rb and not ra:
                b = self.seq(s[3], ind + 1, lambda: "()")
                a = self.seq(s[2] + rest, ind + 1, tail)
                return "if %s then\n%s  %s\n%selse\n%s  %s" % (c, pad, a, pad, pad, b)
            m = self.assigned(s[2]) + [n for n in self.assigned(s[3]) if n not in self.assigned(s[2])]
            if not m:
                return self.seq(rest, ind, tail)
            tup = self.tuple_of(m)
            saved = dict(self.types)
            a = self.seq(s[2], ind + 1, lambda: tup)
            self.types = dict(saved)
            b = self.seq(s[3], ind + 1, lambda: tup)
            self.types = saved
            return "let %s := (if %s then\n%s  %s\n%selse\n%s  %s)\n%s%s" % (tup, c, pad, a, pad, pad, b, pad, self.seq(rest, ind, tail))
        if k == "callstmt":
            tc = self.spec.get("tailcalls", {})
            name = s[1][1]
            if name not in tc:
                raise Unsupported("call statement %s" % name)
            lean, flds, argtys = tc[name]
            if len(argtys) != len(s[1][2]):
                raise Unsupported("arity of %s" % name)
            args = []
            for a, want in zip(s[1][2], argtys):
                t, ty = self.ex(a)
                args.append(self.conv(t, ty, want))
            return "let %s := %s %s\n%s%s" % (self.tuple_of(flds), lean, " ".join(flds + args), pad, self.seq(rest, ind, tail))
        if k == "while":
            fuel = self.spec.get("fuel")
            if fuel is None:
                raise Unsupported("while loop without a fuel entry")
            m = self.assigned(s[2])
            tup = self.tuple_of(m)
            c, cty = self.ex(s[1])
            saved = dict(self.types)
            body = self.seq(s[2], ind + 2, lambda: tup)
            self.types = saved
            if self.always_returns(s[2]):
                raise Unsupported("return inside a loop")
            return ("let %s := Tr.whileN %d (fun %s => %s) (fun %s =>\n%s    %s) %s\n%s%s"
                    % (tup, fuel, tup, self.as_bool(c, cty), tup, pad, body, tup, pad, self.seq(rest, ind, tail)))
        raise Unsupported("statement %r" % (k,))

    def lean_def(self, body_stmts):
        params = self.spec.get("fields", []) + self.spec.get("params", [])
        txt = self.seq(body_stmts, 1, lambda: self.result(None) if not self.spec.get("ret") else (_ for _ in ()).throw(Unsupported("missing return")))
        sig = "def %s %s: %s :=\n  " % (self.spec["lean"], "".join("(%s : %s) " % (n, "Bool" if t == "bool" else "Nat") for n, t in params), self.spec["lean_type"])
        doc = "/-- translated from `%s` (%s)%s -/\n" % (self.spec["cxx"], self.spec["header"],
                                                       ("; dropped assertions: " + "; ".join(self.asserts)) if self.asserts else "")
        return doc + sig + txt + "\n"


# ---------------------------------------------------------------- locating function bodies

def strip_comments(s):
    s = re.sub(r"/\*.*?\*/", lambda m: re.sub(r"[^\n]", " ", m.group(0)), s, flags=re.S)
    return re.sub(r"//[^\n]*", "", s)


def find_body(text, anchor, occurrence=0):
    ms = list(re.finditer(anchor, text))
    if len(ms) <= occurrence:
        return None
    i = text.index("{", ms[occurrence].end())
    depth, j = 0, i
    while j < len(text):
        if text[j] == "{":
            depth += 1
        elif text[j] == "}":
            depth -= 1
            if depth == 0:
                return text[i:j + 1]
        j += 1
    return None


U64 = "u64"
LOG2 = ("Seg.log2db64", [U64], U64, [])

FUNCS = [
    # ---- C16: SegmentedArraySettings<sqrt, L0> / <cnst, L0>
    dict(lean="segSqrt_pvIndexToLogItemCount", prop="C16", cxx="SegmentedArraySettings<sqrt>::pvIndexToLogItemCount", header="SegmentedArray.h",
         anchor=r"static size_t pvIndexToLogItemCount\(size_t index1\) noexcept", params=[("index1", U64)], ret=U64, lean_type="Nat",
         calls={"internal::UIntMath<>::Log2": LOG2}),
    dict(lean="segSqrt_pvSegIndexToLogItemCount", prop="C16", cxx="SegmentedArraySettings<sqrt>::pvSegIndexToLogItemCount", header="SegmentedArray.h",
         anchor=r"static size_t pvSegIndexToLogItemCount\(size_t segIndex\) noexcept", params=[("segIndex", U64)], ret=U64, lean_type="Nat",
         calls={"internal::UIntMath<>::Log2": LOG2}),
    dict(lean="segSqrt_GetSegItemIndexes", prop="C16", cxx="SegmentedArraySettings<sqrt>::GetSegItemIndexes", header="SegmentedArray.h",
         anchor=r"static void GetSegItemIndexes\(size_t index, size_t& segIndex, size_t& itemIndex\) noexcept", occurrence=0,
         params=[("logInitialItemCount", U64), ("index", U64)], outs=[("segIndex", U64), ("itemIndex", U64)], ret=None, lean_type="Nat × Nat",
         calls={"pvIndexToLogItemCount": ("segSqrt_pvIndexToLogItemCount", [U64], U64, [])}),
    dict(lean="segSqrt_GetIndex", prop="C16", cxx="SegmentedArraySettings<sqrt>::GetIndex", header="SegmentedArray.h",
         anchor=r"static size_t GetIndex\(size_t segIndex, size_t itemIndex\) noexcept", occurrence=0,
         params=[("logInitialItemCount", U64), ("segIndex", U64), ("itemIndex", U64)], ret=U64, lean_type="Nat",
         calls={"pvSegIndexToLogItemCount": ("segSqrt_pvSegIndexToLogItemCount", [U64], U64, [])}),
    dict(lean="segSqrt_GetItemCount", prop="C16", cxx="SegmentedArraySettings<sqrt>::GetItemCount", header="SegmentedArray.h",
         anchor=r"static size_t GetItemCount\(size_t segIndex\) noexcept", occurrence=0,
         params=[("logInitialItemCount", U64), ("segIndex", U64)], ret=U64, lean_type="Nat",
         calls={"pvSegIndexToLogItemCount": ("segSqrt_pvSegIndexToLogItemCount", [U64], U64, [])}),
    dict(lean="segCnst_GetSegItemIndexes", prop="C16", cxx="SegmentedArraySettings<cnst>::GetSegItemIndexes", header="SegmentedArray.h",
         anchor=r"static void GetSegItemIndexes\(size_t index, size_t& segIndex, size_t& itemIndex\) noexcept", occurrence=1,
         params=[("logInitialItemCount", U64), ("index", U64)], outs=[("segIndex", U64), ("itemIndex", U64)], ret=None, lean_type="Nat × Nat"),
    dict(lean="segCnst_GetIndex", prop="C16", cxx="SegmentedArraySettings<cnst>::GetIndex", header="SegmentedArray.h",
         anchor=r"static size_t GetIndex\(size_t segIndex, size_t itemIndex\) noexcept", occurrence=1,
         params=[("logInitialItemCount", U64), ("segIndex", U64), ("itemIndex", U64)], ret=U64, lean_type="Nat"),
    # ---- C13: search-bound encoders of the open-addressing buckets
    dict(lean="open2n2_pvGetMaxProbe", prop="C13", cxx="BucketOpen2N2::pvGetMaxProbe", header="details/HashBucketOpen2N2.h",
         anchor=r"size_t pvGetMaxProbe\(\) const noexcept", fields=[("mState_0", "u8"), ("mState_1", "u8")], ret=U64, lean_type="Nat"),
    dict(lean="open2n2_pvUpdateMaxProbe", prop="C13", cxx="BucketOpen2N2::pvUpdateMaxProbe", header="details/HashBucketOpen2N2.h",
         anchor=r"MOMO_NOINLINE void pvUpdateMaxProbe\(size_t probe\) noexcept", params=[("probe", U64)],
         fields=[("mState_0", "u8"), ("mState_1", "u8")], writes=["mState_0", "mState_1"], ret=None, lean_type="Nat × Nat", fuel=64),
    dict(lean="open2n2_UpdateMaxProbe", prop="C13", cxx="BucketOpen2N2::UpdateMaxProbe", header="details/HashBucketOpen2N2.h",
         anchor=r"void UpdateMaxProbe\(size_t probe\) noexcept", params=[("probe", U64)],
         fields=[("mState_0", "u8"), ("mState_1", "u8")], writes=["mState_0", "mState_1"], ret=None, lean_type="Nat × Nat",
         calls={"pvGetMaxProbe": ("open2n2_pvGetMaxProbe", [], U64, ["mState_0", "mState_1"])},
         tailcalls={"pvUpdateMaxProbe": ("open2n2_pvUpdateMaxProbe", ["mState_0", "mState_1"], [U64])}),
    dict(lean="openN1_pvGetMaxProbe", prop="C13", cxx="BucketOpenN1::pvGetMaxProbe", header="details/HashBucketOpenN1.h",
         anchor=r"static size_t pvGetMaxProbe\(uint8_t maxProbeExp\) noexcept", params=[("maxProbeExp", "u8")], ret=U64, lean_type="Nat"),
    dict(lean="openN1_pvUpdateMaxProbe", prop="C13", cxx="BucketOpenN1::pvUpdateMaxProbe", header="details/HashBucketOpenN1.h",
         anchor=r"void pvUpdateMaxProbe\(size_t probe\) noexcept", params=[("probe", U64)], fields=[("maxProbeExpField", "u8")],
         writes=["maxProbeExpField"], accessors={"pvGetMaxProbeExp": "maxProbeExpField"}, ret=None, lean_type="Nat", fuel=64,
         consts={"infProbeExp": ("Extracted.openN1InfProbeExp", "u8")}),
    dict(lean="openN1_GetMaxProbe", prop="C13", cxx="BucketOpenN1::GetMaxProbe", header="details/HashBucketOpenN1.h",
         anchor=r"size_t GetMaxProbe\(size_t logBucketCount\) const noexcept", params=[("logBucketCount", U64)], fields=[("maxProbeExpField", "u8")],
         accessors={"pvGetMaxProbeExp": "maxProbeExpField"}, ret=U64, lean_type="Nat",
         consts={"infProbeExp": ("Extracted.openN1InfProbeExp", "u8")},
         calls={"pvGetMaxProbe": ("openN1_pvGetMaxProbe", ["u8"], U64, [])}),
    dict(lean="openN1_UpdateMaxProbe", prop="C13", cxx="BucketOpenN1::UpdateMaxProbe", header="details/HashBucketOpenN1.h",
         anchor=r"void UpdateMaxProbe\(size_t probe\) noexcept", params=[("probe", U64)], fields=[("maxProbeExpField", "u8")],
         writes=["maxProbeExpField"], accessors={"pvGetMaxProbeExp": "maxProbeExpField"}, ret=None, lean_type="Nat",
         consts={"infProbeExp": ("Extracted.openN1InfProbeExp", "u8")},
         calls={"pvGetMaxProbe": ("openN1_pvGetMaxProbe", ["u8"], U64, [])},
         tailcalls={"pvUpdateMaxProbe": ("openN1_pvUpdateMaxProbe", ["maxProbeExpField"], [U64])}),
    # ---- C05: growth rule of Array
    dict(lean="arr_GrowCapacity", prop="C05", cxx="ArraySettings::GrowCapacity", header="Array.h",
         anchor=r"static size_t GrowCapacity\(size_t capacity, size_t minNewCapacity,\s*ArrayGrowCause growCause, bool linear\) noexcept",
         params=[("growOnReserve", "bool"), ("capacity", U64), ("minNewCapacity", U64), ("growCauseIsReserve", "bool"), ("linear", "bool")],
         ret=U64, lean_type="Nat", pre=[(r"growCause == ArrayGrowCause::reserve", "growCauseIsReserve")]),
    # ---- C02: split rule of the B-tree
    dict(lean="tree_GetSplitItemIndex", prop="C02", cxx="TreeNode::GetSplitItemIndex", header="details/TreeNode.h",
         anchor=r"static size_t GetSplitItemIndex\(size_t itemCount, size_t newItemIndex\) noexcept",
         params=[("itemCount", U64), ("newItemIndex", U64)], ret=U64, lean_type="Nat"),
    # ---- C17: number of interpolation steps of HashSorter's search
    dict(lean="hs_pvGetStepCount", prop="C17", cxx="HashSorter::pvGetStepCount", header="HashSorter.h",
         anchor=r"static size_t pvGetStepCount\(size_t count\) noexcept", params=[("count", U64)], ret=U64, lean_type="Nat"),
]


# further function tables live in tools/trspecs/<Area>.py (each defines FUNCS and optionally IMPORTS = [lean modules];
# U64 and LOG2 are provided). Each area is emitted to its own file lean/Momo/Translated/<Area>.lean, so that a function of
# one area that can no longer be translated (or whose translation no longer type-checks) only breaks the properties whose
# theorems are about that area.
def load_area_specs():
    import glob
    d = os.path.join(os.path.dirname(os.path.abspath(__file__)), "trspecs")
    areas = {}
    for f in sorted(glob.glob(os.path.join(d, "*.py"))):
        g = {"U64": U64, "LOG2": LOG2, "__file__": f}
        exec(compile(open(f).read(), f, "exec"), g)
        areas[os.path.basename(f)[:-3]] = (g.get("FUNCS", []), g.get("IMPORTS", []))
    return areas


def translate_one(spec, text):
    body = find_body(text, spec["anchor"], spec.get("occurrence", 0))
    if body is None:
        raise Unsupported("function not found (anchor %r)" % spec["anchor"])
    for pat, repl in spec.get("pre", []):
        body = re.sub(pat, repl, body)
    p = P(tokenize(body))
    stmts = p.block()
    if p.peek()[0] != "eof":
        raise Unsupported("trailing tokens")
    return Tr(spec, None).lean_def(stmts)


def _emit(repo, funcs, header, cache):
    inc = os.path.join(repo, "include", "momo")
    out, missing = [header], []
    for spec in funcs:
        path = os.path.join(inc, spec["header"])
        try:
            if path not in cache:
                cache[path] = strip_comments(open(path, encoding="utf-8", errors="replace").read())
            out.append(translate_one(spec, cache[path]))
        except (Unsupported, SyntaxError, KeyError, OSError, ValueError) as e:
            missing.append((spec.get("prop", ""), "%s: %s" % (spec["cxx"], e)))
            out.append("-- NOT TRANSLATED: %s (%s)\n" % (spec["cxx"], str(e).replace("\n", " ")))
    out.append("end Momo.Tr\n")
    return "\n".join(out), missing


_HEAD = ("%s/-!\n  GENERATED by tools/translate.py from the function bodies in /repo/include/momo — do not edit.\n"
         "  Each `def` performs the operations of the named C++ function in the same order with the C++ integer\n"
         "  semantics explicit (see tools/translate.py). Equalities with the hand-written models: Proof/TrEq*.lean.\n-/\n"
         "namespace Momo.Tr\nopen Momo\n")


def generate(repo):
    """returns (lean text of Momo/Translated.lean, missing list)"""
    return _emit(repo, FUNCS, _HEAD % "import Momo.Model.Seg\nimport Momo.Model.TrBase\n", {})


def generate_all(repo):
    """returns ({path relative to lean/Momo: text}, missing list) for Translated.lean and every Translated/<Area>.lean"""
    cache, files = {}, {}
    text, missing = _emit(repo, FUNCS, _HEAD % "import Momo.Model.Seg\nimport Momo.Model.TrBase\n", cache)
    files["Translated.lean"] = text
    for area, (funcs, imports) in sorted(load_area_specs().items()):
        imps = "".join("import %s\n" % m for m in ["Momo.Model.Seg", "Momo.Model.TrBase"] + [m for m in imports if m not in ("Momo.Model.Seg", "Momo.Model.TrBase")])
        t, m = _emit(repo, funcs, _HEAD % imps, cache)
        files["Translated/%s.lean" % area] = t
        missing += m
    return files, missing


if __name__ == "__main__":
    files, missing = generate_all(sys.argv[1] if len(sys.argv) > 1 else "/repo")
    want = sys.argv[2] if len(sys.argv) > 2 else "Translated.lean"
    sys.stdout.write(files[want])
    if missing:
        sys.stderr.write("MISSING: " + "; ".join(m for _, m in missing) + "\n")
