#!/usr/bin/env python3
"""T1b translator: regenerates lean/Momo/Translated.lean from the *current* text of small pure
functions of /repo (integer kernels: index arithmetic, probe-bound encoders, growth rules, split rule).

Unlike tools/extract.py (which reads constants out of pinned code shapes) this reads the *code*:
a function body written in the supported C++ subset is parsed (own tokenizer + Pratt parser — no
clang needed, templates are never instantiated) and emitted as a Lean `def` over `Nat` that performs
the same operations in the same order with the C++ integer semantics made explicit:

  size_t  + - * <<            -> Seg.add64 / sub64 / mul64 / shl64   (reduction mod 2^64)
  size_t  >> & | ^ / %        -> >>> &&& ||| ^^^ / %                  (cannot leave the range)
  uint8_t / uint16_t          -> integer promotion to `int`: exact arithmetic on Nat, reduction
                                 mod 2^8 / 2^16 where the C++ converts back (static_cast, assignment
                                 to a narrow variable or field)
  `int` arithmetic            -> exact on Nat; only + * << >> & | and comparisons are accepted,
                                 operands are non-negative by construction (overflow of int is UB
                                 and outside the model)
  while (c) { … }             -> Tr.whileN fuel …   (fuel from the table below; the equivalence proof
                                 must show the fuel suffices)
  if / else / early return / ?: / ++x / --x / op= / MOMO_ASSERT (dropped, listed as a comment)
  reference outputs and fields written by the function become components of the result tuple.
  (area Pool)
  uintptr_t                   -> like size_t (u64)
  Byte* p                     -> a 64-bit address (u64): p + n / p - n is address arithmetic mod 2^64 (flat memory; leaving the
                                 allocation is UB and is excluded by the in-range hypotheses of the equivalence theorems)
  ptrdiff_t (i64)             -> Lean `Int`; + - * unary- & are Tr.addI64 / subI64 / mulI64 / negI64 / andI64: the exact result reduced
                                 to two's complement 64 bit. Signed overflow is UB in C++: the equivalence theorems carry the
                                 hypotheses under which no reduction happens (the wrap is never relied upon)
  int8_t (i8)                 -> Lean `Int`; promoted to `int` (i32) by unary minus / comparisons: exact (|value| <= 128, cannot overflow);
                                 no other arithmetic on i8 / promoted int is accepted
  u64 <op> i64                -> usual arithmetic conversions: the signed operand is converted to u64 (Tr.ofI64: value mod 2^64)
  static_cast<ptrdiff_t>(u64) -> Tr.toI64 (two's complement reading); static_cast<size_t>(signed) -> Tr.ofI64;
  static_cast<int8_t>(i64)    -> Tr.wI8 (reduction to [-128,128)); ptrdiff_t{b} for bool b -> 0 / 1
  ~x on u64                   -> Tr.not64 x (2^64 - 1 - x);  -x on u64 -> Seg.sub64 0 x
  std::minmax(a, b).first/.second -> `(b < a) ? b : a` / `(b < a) ? a : b` (the definition in <algorithm>), both of one type
  sizeof(T)                   -> the entry "sizeof(T)" of the spec's `consts`
  const T x = e; / T{e}       -> declaration / conversion to T
  `T r = f(a, out);`          -> spec key `outcalls`: `let (r, out) := f a` for a translated f with reference outputs
  spec key `recfuel` = n              -> a self-recursive constexpr function: `<lean>_fuel` recurses structurally on a fuel argument
                                 (0 when the fuel runs out), `<lean>` starts it with fuel n; the equivalence proof shows n suffices
  spec keys `cut` ([(regex, replacement)], each must match exactly once) and `stop_before` (regex, must match; the body is
  translated up to that point and the `outs` are returned) remove the parts of a body that touch memory / the memory
  manager; the translation fails (function reported `missing`) when a marker is not found.
  (area HashMeta)
  uint8_t a[n] (type "u8[]")  -> Lean function `Nat → Nat`: `a[e]` is `(a e)`, `a[e] = v;` is `let a := Tr.upd a e v` (no bounds: an
                                 out-of-range index is UB in C++ and excluded by the hypotheses of the equivalence theorems)
  uint8_t& r = a[e];          -> the index is evaluated once (`let r_idx := e`); later `r` reads / writes `a[r_idx]`
  int - int (e.g. `--b` on a uint8_t b) -> exact in Lean `Int` (operands are non-negative); the only accepted use of the result is
                                 the conversion back to uintN_t: `Int.toNat (x % 2^N)` (value mod 2^N, as in C++)
  static const T x = e;       -> local constant: like `T x = e;`
  (area Misc)
  uint32_t (u32)              -> `unsigned int`, not promoted: an operation with a u32 operand (and no u64 one) has type u32;
                                 + - * << are reduced mod 2^32 (`Seg.w32`), >> & | ^ / % cannot leave the range
  -n on an `int`, int -> signed -> exact in Lean `Int` (type i32; operands are non-negative ints by construction)
  [static const] T tab[N] = { n, … };  -> constant table as a total function `fun i => [n, …].getD i 0` (type "T[]": `tab[e]` is `(tab e)`;
                                 reading outside the table is UB in C++ and excluded by the equivalence theorems)
  return { a, b };            -> the components converted to the types listed in the spec's `ret` (a std::pair / struct result)
  MOMO_STATIC_ASSERT(e);      -> dropped like MOMO_ASSERT (listed in the doc comment)
  spec key `fragment` (regex with one group; must match exactly once inside the body found by `anchor`, which may be a whole
  class): the def translates `wrap % group` (`wrap` defaults to "{ return %s; }") — one expression or statement group of a
  function that is otherwise not a pure integer function; the free variables of the fragment are the def's parameters.

  (area OpenBytes)
  0x…ull / …ul literals      -> `unsigned long long` operands (u64): arithmetic with them is the 64-bit one (Seg.mul64 / sub64 …)
  spec key `elemcalls` {f: (array, index def, [argument types], [extra arguments])}: a member function `T& f(args)` whose body is
                                 `return array[e];` and whose index expression `e` is itself translated as `index def`: `f(a)` reads
                                 `(array (index def extra a))`, `f(a) = v;` / `++f()` write that element (the index is evaluated once
                                 per use; the accepted index functions are pure)
Anything outside the subset makes the translation of that function fail; the failure is reported as
`missing` (the obligation cannot be re-checked), exactly like a constant whose pattern is gone.
Lean side: lean/Momo/Proof/TranslatedEq.lean proves each generated def equal to the hand-written model
function the theorems are about, so a changed function body breaks a named equivalence theorem.
"""
import re, os, sys

# ---------------------------------------------------------------- C++ subset: tokenizer

TOK = re.compile(r"""
    (?P<num>0[xX][0-9a-fA-F]+|\d+)(?P<suf>ull|ULL|ul|UL|u|U)?
  | (?P<id>[A-Za-z_][A-Za-z_0-9]*(?:<>|<[A-Za-z_][A-Za-z_0-9]*>(?=::))?(?:::[A-Za-z_][A-Za-z_0-9]*(?:<>|<[A-Za-z_][A-Za-z_0-9]*>(?=::))?)*)
  | (?P<op><<=|>>=|\+\+|--|<<|>>|<=|>=|==|!=|&&|\|\||\+=|-=|\*=|/=|%=|&=|\|=|\^=|[-+*/%&|^~!<>=?:;,(){}\[\].])
  | (?P<ws>\s+)
""", re.X)


def tokenize(src):
    out, i = [], 0
    while i < len(src):
        m = TOK.match(src, i)
        if not m:
            raise SyntaxError("cannot tokenize at: %r" % src[i:i + 30])
        i = m.end()
        if m.lastgroup == "ws":
            continue
        if m.lastgroup in ("num", "suf"):
            # a literal with the suffix ull / ul is an `unsigned long long` (u64) operand (area OpenBytes); others stay `int`
            out.append(("num64" if (m.group("suf") or "").lower() in ("ull", "ul") else "num", int(m.group("num"), 0)))
        elif m.lastgroup == "id":
            out.append(("id", m.group("id")))
        else:
            out.append(("op", m.group("op")))
    out.append(("eof", None))
    return out


TYPES = {"size_t": "u64", "uint64_t": "u64", "uint8_t": "u8", "uint16_t": "u16", "uint32_t": "u32", "bool": "bool", "int": "int",
         "UInt": "u64", "HashCode": "u64", "uintptr_t": "u64", "ptrdiff_t": "i64", "int8_t": "i8"}
BITS = {"u8": 8, "u16": 16, "u32": 32, "u64": 64}
SIGNED = ("i8", "i32", "i64")          # Lean `Int`; i32 = an int8_t promoted to `int`
BITS_S = {"i8": 8, "i32": 32, "i64": 64}
PTR_TYPES = ("Byte",)                  # `Byte* p`: a 64-bit address, type u64

# ---------------------------------------------------------------- parser -> AST (tuples)


class P:
    def __init__(self, toks):
        self.t, self.i = toks, 0

    def peek(self, k=0):
        return self.t[self.i + k]

    def next(self):
        x = self.t[self.i]
        self.i += 1
        return x

    def accept(self, kind, val=None):
        k, v = self.peek()
        if k == kind and (val is None or v == val):
            self.i += 1
            return True
        return False

    def expect(self, kind, val=None):
        k, v = self.next()
        if k != kind or (val is not None and v != val):
            raise SyntaxError("expected %s %r, got %s %r" % (kind, val, k, v))
        return v

    # ---- expressions
    BIN = {"||": 1, "&&": 2, "|": 3, "^": 4, "&": 5, "==": 6, "!=": 6, "<": 7, "<=": 7, ">": 7, ">=": 7,
           "<<": 8, ">>": 8, "+": 9, "-": 9, "*": 10, "/": 10, "%": 10}

    def expr(self, minp=0):
        lhs = self.unary()
        while True:
            k, v = self.peek()
            if k == "op" and v == "?" and minp <= 0:
                self.next()
                a = self.expr(0)
                self.expect("op", ":")
                b = self.expr(0)
                lhs = ("cond", lhs, a, b)
                continue
            if k == "op" and v in self.BIN and self.BIN[v] >= max(minp, 1):
                p = self.BIN[v]
                self.next()
                rhs = self.expr(p + 1)
                lhs = ("bin", v, lhs, rhs)
                continue
            return lhs

    def unary(self):
        k, v = self.peek()
        if k == "op" and v == "!":
            self.next()
            return ("not", self.unary())
        if k == "op" and v in ("~", "-"):                        # ~x, unary minus
            self.next()
            return ("bitnot" if v == "~" else "neg", self.unary())
        if k == "id" and v == "sizeof" and self.peek(1) == ("op", "("):   # sizeof(T): looked up as "sizeof(T)" in the spec's consts
            self.next()
            self.next()
            txt = ""
            while self.peek() != ("op", ")"):
                kk, vv = self.next()
                if kk == "eof" or vv in ("(", ";"):
                    raise SyntaxError("sizeof of something that is not a plain type")
                txt += str(vv)
            self.next()
            return ("sizeof", "sizeof(%s)" % txt)
        if k == "op" and v == "(":
            self.next()
            e = self.expr(0)
            self.expect("op", ")")
            return self.postfix(e)
        if k == "num":
            self.next()
            return ("num", v, "int")
        if k == "num64":                                         # 0x…ull: unsigned 64-bit literal (area OpenBytes)
            self.next()
            return ("num", v, "u64")
        if k == "id":
            self.next()
            if v == "true" or v == "false":
                return ("boollit", v == "true")
            if v == "static_cast":
                self.expect("op", "<")
                ty = self.expect("id")
                self.expect("op", ">")
                self.expect("op", "(")
                e = self.expr(0)
                self.expect("op", ")")
                return ("cast", TYPES[ty], e)
            if v in TYPES and self.peek() == ("op", "{"):      # size_t{1}, uint8_t{3}, size_t{mState[0]}
                self.next()
                e = self.expr(0)
                self.expect("op", "}")
                return ("cast", TYPES[v], e)
            if self.peek() == ("op", "("):                       # call
                self.next()
                args = []
                if not self.accept("op", ")"):
                    while True:
                        args.append(self.expr(0))
                        if self.accept("op", ")"):
                            break
                        self.expect("op", ",")
                return self.postfix(("call", v, args))
            return self.postfix(("var", v))
        raise SyntaxError("unexpected token %s %r" % (k, v))

    def postfix(self, e):
        while self.peek() == ("op", "[") or (self.peek() == ("op", ".") and self.peek(1)[0] == "id"):
            if self.accept("op", "."):                           # member access (only `std::minmax(a, b).first/.second` is translated)
                e = ("member", e, self.expect("id"))
                continue
            self.next()
            idx = self.expr(0)
            self.expect("op", "]")
            e = ("index", e, idx)
        return e

    # ---- statements
    def block(self):
        self.expect("op", "{")
        out = []
        while not self.accept("op", "}"):
            out.append(self.stmt())
        return out

    def stmt_or_block(self):
        if self.peek() == ("op", "{"):
            return self.block()
        return [self.stmt()]

    def stmt(self):
        k, v = self.peek()
        if k == "op" and v == "{":
            return ("block", self.block())
        if k == "id" and v == "return":
            self.next()
            if self.accept("op", ";"):
                return ("return", None)
            if self.accept("op", "{"):                           # `return { a, b };` (a std::pair / struct result; area Misc)
                items = [self.expr(0)]
                while self.accept("op", ","):
                    items.append(self.expr(0))
                self.expect("op", "}")
                self.expect("op", ";")
                return ("return", ("bracelist", items))
            e = self.expr(0)
            self.expect("op", ";")
            return ("return", e)
        if k == "id" and v == "if":
            self.next()
            self.expect("op", "(")
            c = self.expr(0)
            self.expect("op", ")")
            a = self.stmt_or_block()
            b = []
            if self.peek() == ("id", "else"):
                self.next()
                b = self.stmt_or_block()
            return ("if", c, a, b)
        if k == "id" and v == "while":
            self.next()
            self.expect("op", "(")
            c = self.expr(0)
            self.expect("op", ")")
            return ("while", c, self.stmt_or_block())
        if k == "id" and v in ("MOMO_ASSERT", "MOMO_STATIC_ASSERT"):   # (MOMO_STATIC_ASSERT: area Misc)
            self.next()
            self.expect("op", "(")
            e = self.expr(0)
            self.expect("op", ")")
            self.expect("op", ";")
            return ("assert", e)
        if k == "id" and v == "static" and self.peek(1)[0] == "id" and (self.peek(1)[1] == "const" or self.peek(1)[1] in TYPES):
            self.next()                                          # `static const T x = e;` (local constant) is `T x = e;`
            k, v = self.peek()
        if k == "id" and v in TYPES and self.peek(1) == ("op", "&") and self.peek(2)[0] == "id" and self.peek(3) == ("op", "="):
            self.next()                                          # `T& r = a[i];`: alias of an array element (area HashMeta)
            self.next()
            name = self.expect("id")
            self.next()
            lv = self.unary()
            self.expect("op", ";")
            return ("refdecl", TYPES[v], name, lv)
        if k == "id" and v == "const" and self.peek(1)[0] == "id" and (self.peek(1)[1] in TYPES or self.peek(1)[1] in PTR_TYPES):
            self.next()                                          # `const T x = e;` is `T x = e;`
            k, v = self.peek()
        if k == "id" and v in PTR_TYPES and self.peek(1) == ("op", "*") and self.peek(2)[0] == "id" and self.peek(3)[1] in ("=", ";"):
            self.next()                                          # `Byte* p = e;` / `Byte* p;`: an address (u64)
            self.next()
            name = self.expect("id")
            init = None
            if self.accept("op", "="):
                init = self.expr(0)
            self.expect("op", ";")
            return ("decl", "u64", name, init)
        if k == "id" and v in TYPES and self.peek(1)[0] == "id" and self.peek(2) == ("op", "[") and self.peek(3)[0] == "num" \
                and self.peek(4) == ("op", "]") and self.peek(5) == ("op", "=") and self.peek(6) == ("op", "{"):
            self.next()                                          # `[static const] T tab[N] = { n, n, ... };` (constant table; area Misc)
            name = self.expect("id")
            self.next()
            size = self.expect("num")
            for _ in range(3):
                self.next()
            vals = []
            while not self.accept("op", "}"):
                vals.append(self.expect("num"))
                if not self.accept("op", ","):
                    self.expect("op", "}")
                    break
            self.expect("op", ";")
            return ("decltab", TYPES[v], name, size, vals)
        if k == "id" and v in TYPES and self.peek(1)[0] == "id":   # declaration
            self.next()
            name = self.expect("id")
            init = None
            if self.accept("op", "="):
                init = self.expr(0)
            self.expect("op", ";")
            return ("decl", TYPES[v], name, init)
        if k == "op" and v in ("++", "--"):
            self.next()
            lv = self.unary()
            self.expect("op", ";")
            return ("assign", lv, ("bin", "+" if v == "++" else "-", lv, ("num", 1, "int")))
        lv = self.unary()
        k, v = self.next()
        if k == "op" and v == ";" and lv[0] == "call":
            return ("callstmt", lv)
        if k == "op" and v == "=":
            e = self.expr(0)
        elif k == "op" and v in ("+=", "-=", "*=", "/=", "%=", "&=", "|=", "^=", "<<=", ">>="):
            e = ("bin", v[:-1], lv, self.expr(0))
        elif k == "op" and v in ("++", "--"):
            e = ("bin", "+" if v == "++" else "-", lv, ("num", 1, "int"))
        else:
            raise SyntaxError("unsupported statement starting with %r then %r" % (lv, v))
        self.expect("op", ";")
        return ("assign", lv, e)


# ---------------------------------------------------------------- translation to Lean

class Unsupported(Exception):
    pass


class Tr:
    def __init__(self, spec, allspecs):
        self.spec = spec
        self.all = allspecs
        self.types = dict(spec.get("params", []))
        self.types.update(dict(spec.get("fields", [])))
        self.types.update(dict(spec.get("outs", [])))
        self.consts = spec.get("consts", {})
        self.asserts = []
        self.refs = {}                                           # `T& r = a[i];`: r -> (a, name of the let-bound index, element type)
        self.outs = [n for n, _ in spec.get("outs", [])] + [n for n, _ in spec.get("fields", []) if n in spec.get("writes", [])]

    # --- lvalues: plain variable, `mState[0]` (field array with literal index), accessor call `pvGetMaxProbeExp()`
    def lv_name(self, lv):
        if lv[0] == "var":
            return self.rename(lv[1])
        if lv[0] == "index" and lv[1][0] == "var" and lv[2][0] == "num":
            return "%s_%d" % (lv[1][1], lv[2][1])
        if lv[0] == "call" and lv[1] in self.spec.get("accessors", {}) and not lv[2]:
            return self.spec["accessors"][lv[1]]
        raise Unsupported("lvalue %r" % (lv,))

    def rename(self, n):
        return self.spec.get("rename", {}).get(n, n)

    # --- byte arrays (area HashMeta): a field / parameter of type "u8[]" is a Lean function `Nat → Nat`; `a[e]` reads `(a e)`,
    # `a[e] = v` is `let a := Tr.upd a e v`; `T& r = a[e];` binds the index once, later uses of `r` read / write that element
    def arr_lv(self, lv):
        """(array name, index AST | name of the bound index, element type) if `lv` is an element of an array-typed name, else None"""
        if lv[0] == "var" and lv[1] in self.refs:
            return self.refs[lv[1]]
        if lv[0] == "call" and lv[1] in self.spec.get("elemcalls", {}):   # accessor returning a reference to an array element (area OpenBytes)
            arr, idxfn, argtys, extra = self.spec["elemcalls"][lv[1]]
            if len(argtys) != len(lv[2]):
                raise Unsupported("arity of %s" % lv[1])
            args = []
            for a, want in zip(lv[2], argtys):
                t, ty = self.ex(a)
                args.append(self.conv(t, ty, want))
            return arr, "(%s %s)" % (idxfn, " ".join(extra + args)), self.types[arr][:-2]
        if lv[0] == "index" and lv[1][0] == "var":
            n = self.rename(lv[1][1])
            if self.types.get(n, "").endswith("[]"):
                return n, lv[2], self.types[n][:-2]
        return None

    def arr_index(self, idx):
        if isinstance(idx, str):
            return idx
        t, ty = self.ex(idx)
        return self.conv(t, ty, "u64")

    # --- expressions: returns (lean text, type)
    def ex(self, e):
        k = e[0]
        if k == "num":
            return str(e[1]), e[2]
        if k == "boollit":
            return ("true" if e[1] else "false"), "bool"
        if (k in ("var", "index") or (k == "call" and e[1] in self.spec.get("elemcalls", {}))) and self.arr_lv(e) is not None:  # element of a byte array
            arr, idx, elty = self.arr_lv(e)
            return "(%s %s)" % (arr, self.arr_index(idx)), elty
        if k == "var" or k == "index" or (k == "call" and e[1] in self.spec.get("accessors", {}) and not e[2]):
            if k == "var" and e[1] in self.consts:
                txt, ty = self.consts[e[1]]
                return txt, ty
            n = self.lv_name(e)
            if n not in self.types:
                raise Unsupported("unknown identifier %s" % n)
            return n, self.types[n]
        if k == "cast":
            t, ty = self.ex(e[2])
            return self.conv(t, ty, e[1]), e[1]
        if k == "not":
            t, ty = self.ex(e[1])
            return "(!%s)" % self.as_bool(t, ty), "bool"
        if k == "cond":
            c, cty = self.ex(e[1])
            a, aty = self.ex(e[2])
            b, bty = self.ex(e[3])
            ty = self.common(aty, bty)
            return "(if %s then %s else %s)" % (self.as_bool(c, cty), self.conv(a, aty, ty), self.conv(b, bty, ty)), ty
        if k == "sizeof":
            if e[1] not in self.consts:
                raise Unsupported("%s (no such entry in consts)" % e[1])
            return self.consts[e[1]]
        if k == "bitnot":
            t, ty = self.ex(e[1])
            if ty != "u64":
                raise Unsupported("~ on %s" % ty)
            return "(Tr.not64 %s)" % t, "u64"
        if k == "neg":
            t, ty = self.ex(e[1])
            if ty == "i64":
                return "(Tr.negI64 %s)" % t, "i64"
            if ty in ("i8", "i32"):
                return "(-%s)" % t, "i32"                      # int8_t promoted to int: exact, cannot overflow
            if ty == "u64":
                return "(Seg.sub64 0 %s)" % t, "u64"
            if ty == "int":
                return "(-(%s : Int))" % t, "i32"               # -n on a non-negative int: exact (area Misc)
            raise Unsupported("unary minus on %s" % ty)
        if k == "member":
            if not (e[1][0] == "call" and e[1][1] == "std::minmax" and len(e[1][2]) == 2 and e[2] in ("first", "second")):
                raise Unsupported("member access .%s" % e[2])
            a, aty = self.ex(e[1][2][0])
            b, bty = self.ex(e[1][2][1])
            if aty != bty or aty == "bool":
                raise Unsupported("std::minmax of %s and %s" % (aty, bty))
            # minmax(a, b) = (b < a) ? pair(b, a) : pair(a, b)
            return ("(if (decide (%s < %s)) then %s else %s)" % ((b, a, b, a) if e[2] == "first" else (b, a, a, b))), aty
        if k == "call":
            calls = self.spec.get("calls", {})
            if e[1] not in calls:
                raise Unsupported("call of %s" % e[1])
            lean, argtys, rty, extra = calls[e[1]]
            if len(argtys) != len(e[2]):
                raise Unsupported("arity of %s" % e[1])
            args = []
            for a, want in zip(e[2], argtys):
                t, ty = self.ex(a)
                args.append(self.conv(t, ty, want))
            return "(%s %s)" % (lean, " ".join(extra + args)), rty
        if k == "bin":
            op = e[1]
            a, aty = self.ex(e[2])
            b, bty = self.ex(e[3])
            if op in ("&&", "||"):
                return "(%s %s %s)" % (self.as_bool(a, aty), op, self.as_bool(b, bty)), "bool"
            if "sint" in (aty, bty):
                raise Unsupported("operator %s on the result of an int subtraction" % op)
            if aty in SIGNED or bty in SIGNED:
                if "u64" in (aty, bty):                           # the signed operand is converted to the unsigned type
                    a, b, aty, bty = self.conv(a, aty, "u64"), self.conv(b, bty, "u64"), "u64", "u64"
                else:
                    ty = "i64" if "i64" in (aty, bty) else "i32"
                    a, b = self.conv(a, aty, ty), self.conv(b, bty, ty)
                    if op in ("==", "!=", "<", "<=", ">", ">="):
                        lop = {"==": "=", "!=": "≠", "<": "<", "<=": "≤", ">": ">", ">=": "≥"}[op]
                        return "(decide (%s %s %s))" % (a, lop, b), "bool"
                    if ty != "i64" or op not in ("+", "-", "*", "&"):
                        raise Unsupported("operator %s on %s operands" % (op, ty))
                    return "(%s %s %s)" % ({"+": "Tr.addI64", "-": "Tr.subI64", "*": "Tr.mulI64", "&": "Tr.andI64"}[op], a, b), "i64"
            if op in ("==", "!=", "<", "<=", ">", ">="):
                if aty == "bool" and bty == "bool" and op in ("==", "!="):
                    return "(%s %s %s)" % (a, op, b), "bool"
                a, b = self.as_num(a, aty), self.as_num(b, bty)
                lop = {"==": "=", "!=": "≠", "<": "<", "<=": "≤", ">": ">", ">=": "≥"}[op]
                return "(decide (%s %s %s))" % (a, lop, b), "bool"
            ty = "u64" if "u64" in (aty, bty) else "u32" if "u32" in (aty, bty) else "int"   # usual arithmetic conversions (narrow unsigned -> int)
            if op in ("<<", ">>"):
                ty = aty if aty in ("u64", "u32") else "int"   # the result has the promoted type of the LEFT operand
            a, b = self.as_num(a, aty), self.as_num(b, bty)
            if ty == "u32":                                       # uint32_t = unsigned int: not promoted, + - * << wrap mod 2^32 (area Misc)
                f = {"+": "Seg.w32 (%s + %s)", "-": "Seg.w32 (%s + 4294967296 - %s)", "*": "Seg.w32 (%s * %s)", "<<": "Seg.w32 (%s <<< %s)",
                     ">>": "%s >>> %s", "&": "%s &&& %s", "|": "%s ||| %s", "^": "%s ^^^ %s", "/": "%s / %s", "%": "%s %% %s"}[op]
                return "(" + f % (a, b) + ")", ty
            if ty == "u64":
                f = {"+": "Seg.add64 %s %s", "-": "Seg.sub64 %s %s", "*": "Seg.mul64 %s %s", "<<": "Seg.shl64 %s %s",
                     ">>": "%s >>> %s", "&": "%s &&& %s", "|": "%s ||| %s", "^": "%s ^^^ %s", "/": "%s / %s", "%": "%s %% %s"}[op]
            else:
                if op == "-":                                     # int - int (operands >= 0): exact in Int; only a conversion to uN may follow
                    return "((%s : Int) - (%s : Int))" % (a, b), "sint"
                if op not in ("+", "*", "<<", ">>", "&", "|", "^", "/", "%"):
                    raise Unsupported("operator %s on int operands" % op)
                f = {"+": "%s + %s", "*": "%s * %s", "<<": "%s <<< %s", ">>": "%s >>> %s", "&": "%s &&& %s", "|": "%s ||| %s",
                     "^": "%s ^^^ %s", "/": "%s / %s", "%": "%s %% %s"}[op]
            return "(" + f % (a, b) + ")", ty
        raise Unsupported("expression %r" % (e,))

    def as_bool(self, t, ty):
        return t if ty == "bool" else "(decide (%s ≠ 0))" % t

    def as_num(self, t, ty):
        return "(if %s then 1 else 0)" % t if ty == "bool" else t

    def common(self, a, b):
        if a == b:
            return a
        if "u64" in (a, b):
            return "u64"
        if "u32" in (a, b) and a not in SIGNED and b not in SIGNED:
            return "u32"
        if a in SIGNED or b in SIGNED:
            return "i64" if "i64" in (a, b) else "i32"
        return "int"

    def conv(self, t, src, dst):
        """value conversion src type -> dst type"""
        if src == "sint":                                         # possibly negative int -> uN: reduction mod 2^N (Int.emod is >= 0)
            if dst in BITS:
                return "(Int.toNat (%s %% %d))" % (t, 2 ** BITS[dst])
            raise Unsupported("conversion of the result of an int subtraction to %s" % dst)
        if src == dst:
            return t
        if dst == "bool":
            return self.as_bool(t, src)
        if src in SIGNED or dst in SIGNED:
            if src == "bool":
                return "((if %s then 1 else 0) : Int)" % t
            if src in SIGNED and dst in SIGNED:
                if BITS_S[src] <= BITS_S[dst]:
                    return t                                      # widening: exact
                if dst == "i8":
                    return "(Tr.wI8 %s)" % t
                raise Unsupported("conversion %s -> %s" % (src, dst))
            if src in SIGNED:
                if dst == "u64":
                    return "(Tr.ofI64 %s)" % t                    # value mod 2^64
                raise Unsupported("conversion %s -> %s" % (src, dst))
            if re.fullmatch(r"\d+", t) and int(t) < 2 ** (BITS_S[dst] - 1):
                return "(%s : Int)" % t
            if dst == "i64" and src == "u64":
                return "(Tr.toI64 %s)" % t                        # two's complement reading
            if dst == "i8":
                return "(Tr.wI8 (Int.ofNat %s))" % t
            if dst in ("i32", "i64") and src in BITS and BITS[src] < BITS_S[dst]:
                return "(Int.ofNat %s)" % t
            if dst in ("i32", "i64") and src == "int":           # a non-negative int (area Misc)
                return "(Int.ofNat %s)" % t
            raise Unsupported("conversion %s -> %s" % (src, dst))
        t = self.as_num(t, src)
        if src == "bool":
            return t
        if dst == "int":
            return t
        if re.fullmatch(r"\d+", t) and dst in BITS and int(t) < 2 ** BITS[dst]:
            return t
        if dst == "u64":
            return t if src in BITS else "(Seg.w64 %s)" % t     # narrow unsigned fits; int is reduced mod 2^64
        if dst in BITS:
            if src in BITS and BITS[src] <= BITS[dst]:
                return t
            return "(%s %% %d)" % (t, 2 ** BITS[dst])
        raise Unsupported("conversion %s -> %s" % (src, dst))

    # --- statements -> Lean expression producing the result tuple
    def assigned(self, stmts):
        out = []
        for s in stmts:
            if s[0] == "refdecl":
                self.bind_ref(s)
            elif s[0] == "assign" and self.arr_lv(s[1]) is not None:
                if self.arr_lv(s[1])[0] not in out:
                    out.append(self.arr_lv(s[1])[0])
            elif s[0] == "assign":
                n = self.lv_name(s[1])
                if n not in out:
                    out.append(n)
            elif s[0] == "if":
                for n in self.assigned(s[2]) + self.assigned(s[3]):
                    if n not in out:
                        out.append(n)
            elif s[0] == "while":
                for n in self.assigned(s[2]):
                    if n not in out:
                        out.append(n)
            elif s[0] == "block":
                for n in self.assigned(s[1]):
                    if n not in out:
                        out.append(n)
            elif s[0] == "callstmt" and s[1][1] in self.spec.get("tailcalls", {}):
                for n in self.spec["tailcalls"][s[1][1]][1]:
                    if n not in out:
                        out.append(n)
        return out

    def bind_ref(self, s):
        al = self.arr_lv(s[3])
        if al is None or isinstance(al[1], str) or al[2] != s[1]:
            raise Unsupported("reference %s to something that is not an element of a byte array" % s[2])
        self.refs[s[2]] = (al[0], s[2] + "_idx", al[2])
        return al[1]

    def always_returns(self, stmts):
        for s in stmts:
            if s[0] == "return":
                return True
            if s[0] == "if" and s[3] and self.always_returns(s[2]) and self.always_returns(s[3]):
                return True
            if s[0] == "block" and self.always_returns(s[1]):
                return True
        return False

    def tuple_of(self, names):
        if not names:
            return "()"
        return names[0] if len(names) == 1 else "(" + ", ".join(names) + ")"

    def result(self, e):
        parts = []
        if e is not None and e[0] == "bracelist":                # `return { a, b };`: spec ret = list of the component types
            if not isinstance(self.spec.get("ret"), (list, tuple)) or len(self.spec["ret"]) != len(e[1]):
                raise Unsupported("braced return value")
            for x, want in zip(e[1], self.spec["ret"]):
                t, ty = self.ex(x)
                parts.append(self.conv(t, ty, want))
        elif e is not None:
            t, ty = self.ex(e)
            parts.append(self.conv(t, ty, self.spec["ret"]))
        elif self.spec.get("ret"):
            raise Unsupported("return without value")
        parts += self.outs
        return self.tuple_of(parts)

    def seq(self, stmts, ind, tail):
        """stmts then `tail()` (text of the continuation); returns Lean text"""
        if not stmts:
            return tail()
        s, rest = stmts[0], stmts[1:]
        pad = "  " * ind
        k = s[0]
        if k == "assert":
            try:
                self.asserts.append(self.ex(s[1])[0])
            except Unsupported:
                self.asserts.append("(untranslated assertion)")
            return self.seq(rest, ind, tail)
        if k == "block":
            return self.seq(s[1] + rest, ind, tail)
        if k == "return":
            return self.result(s[1])
        if k == "decltab":                                        # constant table: a total function (0 outside; reading outside is UB in C++)
            if s[1] not in BITS or len(s[4]) != s[3] or any(v >= 2 ** BITS[s[1]] for v in s[4]):
                raise Unsupported("table %s" % s[2])
            self.types[s[2]] = s[1] + "[]"
            return "let %s : Nat → Nat := fun i => ([%s] : List Nat).getD i 0\n%s%s" % (s[2], ", ".join(str(v) for v in s[4]), pad, self.seq(rest, ind, tail))
        if k == "decl":
            self.types[s[2]] = s[1]
            if s[3] is None:
                return "let %s := 0\n%s%s" % (s[2], pad, self.seq(rest, ind, tail))   # uninitialised: never read before assignment in accepted code
            oc = self.spec.get("outcalls", {})
            if s[3][0] == "call" and s[3][1] in oc:              # `T r = f(a, out);` with reference outputs
                lean, extra, argtys, outtys, rty = oc[s[3][1]]
                ins, outs = s[3][2][:len(argtys)], s[3][2][len(argtys):]
                if len(ins) != len(argtys) or len(outs) != len(outtys) or rty != s[1]:
                    raise Unsupported("arity / result type of %s" % s[3][1])
                args = []
                for a, want in zip(ins, argtys):
                    t, ty = self.ex(a)
                    args.append(self.conv(t, ty, want))
                names = []
                for o, oty in zip(outs, outtys):
                    if o[0] != "var" or self.types.get(self.rename(o[1])) != oty:
                        raise Unsupported("reference argument of %s" % s[3][1])
                    names.append(self.rename(o[1]))
                return "let %s := %s %s\n%s%s" % (self.tuple_of([s[2]] + names), lean, " ".join(extra + args), pad, self.seq(rest, ind, tail))
            t, ty = self.ex(s[3])
            if s[1] in SIGNED:
                return "let %s : Int := %s\n%s%s" % (s[2], self.conv(t, ty, s[1]), pad, self.seq(rest, ind, tail))
            return "let %s := %s\n%s%s" % (s[2], self.conv(t, ty, s[1]), pad, self.seq(rest, ind, tail))
        if k == "refdecl":
            idx = self.bind_ref(s)
            t, ty = self.ex(idx)
            return "let %s_idx := %s\n%s%s" % (s[2], self.conv(t, ty, "u64"), pad, self.seq(rest, ind, tail))
        if k == "assign" and self.arr_lv(s[1]) is not None:
            arr, idx, elty = self.arr_lv(s[1])
            it = self.arr_index(idx)
            t, ty = self.ex(s[2])
            return "let %s := Tr.upd %s %s %s\n%s%s" % (arr, arr, it, self.conv(t, ty, elty), pad, self.seq(rest, ind, tail))
        if k == "assign":
            n = self.lv_name(s[1])
            if n not in self.types:
                raise Unsupported("assignment to unknown %s" % n)
            t, ty = self.ex(s[2])
            return "let %s := %s\n%s%s" % (n, self.conv(t, ty, self.types[n]), pad, self.seq(rest, ind, tail))
        if k == "if":
            c, cty = self.ex(s[1])
            c = self.as_bool(c, cty)
            ra, rb = self.always_returns(s[2]), self.always_returns(s[3])
            if ra and not rb:
                a = self.seq(s[2], ind + 1, lambda: "()")
                b = self.seq(s[3] + rest, ind + 1, tail)
                return "if %s then\n%s  %s\n%selse\n%s  %s" % (c, pad, a, pad, pad, b)
            if ra and rb:
                a = self.seq(s[2], ind + 1, lambda: "()")
                b = self.seq(s[3], ind + 1, lambda: "()")
                return "if %s then\n%s  %s\n%selse\n%s  %s" % (c, pad, a, pad, pad, b)
            if rb and not ra:
                b = self.seq(s[3], ind + 1, lambda: "()")
                a = self.seq(s[2] + rest, ind + 1, tail)
                return "if %s then\n%s  %s\n%selse\n%s  %s" % (c, pad, a, pad, pad, b)
            m = self.assigned(s[2]) + [n for n in self.assigned(s[3]) if n not in self.assigned(s[2])]
            if not m:
                return self.seq(rest, ind, tail)
            tup = self.tuple_of(m)
            saved = dict(self.types)
            a = self.seq(s[2], ind + 1, lambda: tup)
            self.types = dict(saved)
            b = self.seq(s[3], ind + 1, lambda: tup)
            self.types = saved
            return "let %s := (if %s then\n%s  %s\n%selse\n%s  %s)\n%s%s" % (tup, c, pad, a, pad, pad, b, pad, self.seq(rest, ind, tail))
        if k == "callstmt":
            tc = self.spec.get("tailcalls", {})
            name = s[1][1]
            if name not in tc:
                raise Unsupported("call statement %s" % name)
            lean, flds, argtys = tc[name]
            if len(argtys) != len(s[1][2]):
                raise Unsupported("arity of %s" % name)
            args = []
            for a, want in zip(s[1][2], argtys):
                t, ty = self.ex(a)
                args.append(self.conv(t, ty, want))
            return "let %s := %s %s\n%s%s" % (self.tuple_of(flds), lean, " ".join(flds + args), pad, self.seq(rest, ind, tail))
        if k == "while":
            fuel = self.spec.get("fuel")
            if fuel is None:
                raise Unsupported("while loop without a fuel entry")
            m = self.assigned(s[2])
            tup = self.tuple_of(m)
            c, cty = self.ex(s[1])
            saved = dict(self.types)
            body = self.seq(s[2], ind + 2, lambda: tup)
            self.types = saved
            if self.always_returns(s[2]):
                raise Unsupported("return inside a loop")
            return ("let %s := Tr.whileN %d (fun %s => %s) (fun %s =>\n%s    %s) %s\n%s%s"
                    % (tup, fuel, tup, self.as_bool(c, cty), tup, pad, body, tup, pad, self.seq(rest, ind, tail)))
        raise Unsupported("statement %r" % (k,))

    def lean_def(self, body_stmts):
        params = self.spec.get("fields", []) + self.spec.get("params", [])
        txt = self.seq(body_stmts, 1, lambda: self.result(None) if not self.spec.get("ret") else (_ for _ in ()).throw(Unsupported("missing return")))
        sig = "def %s %s: %s :=\n  " % (self.spec["lean"], "".join("(%s : %s) " % (n, "Bool" if t == "bool" else "Nat → Nat" if t.endswith("[]") else ("Int" if t in SIGNED else "Nat")) for n, t in params), self.spec["lean_type"])
        doc = "/-- translated from `%s` (%s)%s%s -/\n" % (self.spec["cxx"], self.spec["header"],
                                                         ("; " + self.spec["note"]) if self.spec.get("note") else "",
                                                         ("; dropped assertions: " + "; ".join(self.asserts)) if self.asserts else "")
        if self.spec.get("recfuel"):                              # self-recursive function: recursion on a fuel argument
            names = [n for n, _ in params]                       # (the spec's `calls` maps the own name to "<lean>_fuel fuel")
            if any(t != "u64" for _, t in params) or self.spec["lean_type"] != "Nat":
                raise Unsupported("recfuel needs size_t parameters and result")
            return (doc[:-4] + "; recursion with fuel %d, 0 when it runs out (the equivalence proof shows it never does) -/\n" % self.spec["recfuel"]
                    + "def %s_fuel : Nat → %sNat\n  | 0, %s => 0\n  | fuel+1, %s =>\n  %s\n\n" % (self.spec["lean"], "Nat → " * len(names), ", ".join("_" for _ in names), ", ".join(names), txt)
                    + "def %s %s: Nat := %s_fuel %d %s\n" % (self.spec["lean"], "".join("(%s : Nat) " % n for n in names), self.spec["lean"], self.spec["recfuel"], " ".join(names)))
        return doc + sig + txt + "\n"


# ---------------------------------------------------------------- locating function bodies

def strip_comments(s):
    s = re.sub(r"/\*.*?\*/", lambda m: re.sub(r"[^\n]", " ", m.group(0)), s, flags=re.S)
    return re.sub(r"//[^\n]*", "", s)


def find_body(text, anchor, occurrence=0):
    ms = list(re.finditer(anchor, text))
    if len(ms) <= occurrence:
        return None
    i = text.index("{", ms[occurrence].end())
    depth, j = 0, i
    while j < len(text):
        if text[j] == "{":
            depth += 1
        elif text[j] == "}":
            depth -= 1
            if depth == 0:
                return text[i:j + 1]
        j += 1
    return None


U64 = "u64"
LOG2 = ("Seg.log2db64", [U64], U64, [])

FUNCS = [
    # ---- C16: SegmentedArraySettings<sqrt, L0> / <cnst, L0>
    dict(lean="segSqrt_pvIndexToLogItemCount", prop="C16", cxx="SegmentedArraySettings<sqrt>::pvIndexToLogItemCount", header="SegmentedArray.h",
         anchor=r"static size_t pvIndexToLogItemCount\(size_t index1\) noexcept", params=[("index1", U64)], ret=U64, lean_type="Nat",
         calls={"internal::UIntMath<>::Log2": LOG2}),
    dict(lean="segSqrt_pvSegIndexToLogItemCount", prop="C16", cxx="SegmentedArraySettings<sqrt>::pvSegIndexToLogItemCount", header="SegmentedArray.h",
         anchor=r"static size_t pvSegIndexToLogItemCount\(size_t segIndex\) noexcept", params=[("segIndex", U64)], ret=U64, lean_type="Nat",
         calls={"internal::UIntMath<>::Log2": LOG2}),
    dict(lean="segSqrt_GetSegItemIndexes", prop="C16", cxx="SegmentedArraySettings<sqrt>::GetSegItemIndexes", header="SegmentedArray.h",
         anchor=r"static void GetSegItemIndexes\(size_t index, size_t& segIndex, size_t& itemIndex\) noexcept", occurrence=0,
         params=[("logInitialItemCount", U64), ("index", U64)], outs=[("segIndex", U64), ("itemIndex", U64)], ret=None, lean_type="Nat × Nat",
         calls={"pvIndexToLogItemCount": ("segSqrt_pvIndexToLogItemCount", [U64], U64, [])}),
    dict(lean="segSqrt_GetIndex", prop="C16", cxx="SegmentedArraySettings<sqrt>::GetIndex", header="SegmentedArray.h",
         anchor=r"static size_t GetIndex\(size_t segIndex, size_t itemIndex\) noexcept", occurrence=0,
         params=[("logInitialItemCount", U64), ("segIndex", U64), ("itemIndex", U64)], ret=U64, lean_type="Nat",
         calls={"pvSegIndexToLogItemCount": ("segSqrt_pvSegIndexToLogItemCount", [U64], U64, [])}),
    dict(lean="segSqrt_GetItemCount", prop="C16", cxx="SegmentedArraySettings<sqrt>::GetItemCount", header="SegmentedArray.h",
         anchor=r"static size_t GetItemCount\(size_t segIndex\) noexcept", occurrence=0,
         params=[("logInitialItemCount", U64), ("segIndex", U64)], ret=U64, lean_type="Nat",
         calls={"pvSegIndexToLogItemCount": ("segSqrt_pvSegIndexToLogItemCount", [U64], U64, [])}),
    dict(lean="segCnst_GetSegItemIndexes", prop="C16", cxx="SegmentedArraySettings<cnst>::GetSegItemIndexes", header="SegmentedArray.h",
         anchor=r"static void GetSegItemIndexes\(size_t index, size_t& segIndex, size_t& itemIndex\) noexcept", occurrence=1,
         params=[("logInitialItemCount", U64), ("index", U64)], outs=[("segIndex", U64), ("itemIndex", U64)], ret=None, lean_type="Nat × Nat"),
    dict(lean="segCnst_GetIndex", prop="C16", cxx="SegmentedArraySettings<cnst>::GetIndex", header="SegmentedArray.h",
         anchor=r"static size_t GetIndex\(size_t segIndex, size_t itemIndex\) noexcept", occurrence=1,
         params=[("logInitialItemCount", U64), ("segIndex", U64), ("itemIndex", U64)], ret=U64, lean_type="Nat"),
    # ---- C13: search-bound encoders of the open-addressing buckets
    dict(lean="open2n2_pvGetMaxProbe", prop="C13", cxx="BucketOpen2N2::pvGetMaxProbe", header="details/HashBucketOpen2N2.h",
         anchor=r"size_t pvGetMaxProbe\(\) const noexcept", fields=[("mState_0", "u8"), ("mState_1", "u8")], ret=U64, lean_type="Nat"),
    dict(lean="open2n2_pvUpdateMaxProbe", prop="C13", cxx="BucketOpen2N2::pvUpdateMaxProbe", header="details/HashBucketOpen2N2.h",
         anchor=r"MOMO_NOINLINE void pvUpdateMaxProbe\(size_t probe\) noexcept", params=[("probe", U64)],
         fields=[("mState_0", "u8"), ("mState_1", "u8")], writes=["mState_0", "mState_1"], ret=None, lean_type="Nat × Nat", fuel=64),
    dict(lean="open2n2_UpdateMaxProbe", prop="C13", cxx="BucketOpen2N2::UpdateMaxProbe", header="details/HashBucketOpen2N2.h",
         anchor=r"void UpdateMaxProbe\(size_t probe\) noexcept", params=[("probe", U64)],
         fields=[("mState_0", "u8"), ("mState_1", "u8")], writes=["mState_0", "mState_1"], ret=None, lean_type="Nat × Nat",
         calls={"pvGetMaxProbe": ("open2n2_pvGetMaxProbe", [], U64, ["mState_0", "mState_1"])},
         tailcalls={"pvUpdateMaxProbe": ("open2n2_pvUpdateMaxProbe", ["mState_0", "mState_1"], [U64])}),
    dict(lean="openN1_pvGetMaxProbe", prop="C13", cxx="BucketOpenN1::pvGetMaxProbe", header="details/HashBucketOpenN1.h",
         anchor=r"static size_t pvGetMaxProbe\(uint8_t maxProbeExp\) noexcept", params=[("maxProbeExp", "u8")], ret=U64, lean_type="Nat"),
    dict(lean="openN1_pvUpdateMaxProbe", prop="C13", cxx="BucketOpenN1::pvUpdateMaxProbe", header="details/HashBucketOpenN1.h",
         anchor=r"void pvUpdateMaxProbe\(size_t probe\) noexcept", params=[("probe", U64)], fields=[("maxProbeExpField", "u8")],
         writes=["maxProbeExpField"], accessors={"pvGetMaxProbeExp": "maxProbeExpField"}, ret=None, lean_type="Nat", fuel=64,
         consts={"infProbeExp": ("Extracted.openN1InfProbeExp", "u8")}),
    dict(lean="openN1_GetMaxProbe", prop="C13", cxx="BucketOpenN1::GetMaxProbe", header="details/HashBucketOpenN1.h",
         anchor=r"size_t GetMaxProbe\(size_t logBucketCount\) const noexcept", params=[("logBucketCount", U64)], fields=[("maxProbeExpField", "u8")],
         accessors={"pvGetMaxProbeExp": "maxProbeExpField"}, ret=U64, lean_type="Nat",
         consts={"infProbeExp": ("Extracted.openN1InfProbeExp", "u8")},
         calls={"pvGetMaxProbe": ("openN1_pvGetMaxProbe", ["u8"], U64, [])}),
    dict(lean="openN1_UpdateMaxProbe", prop="C13", cxx="BucketOpenN1::UpdateMaxProbe", header="details/HashBucketOpenN1.h",
         anchor=r"void UpdateMaxProbe\(size_t probe\) noexcept", params=[("probe", U64)], fields=[("maxProbeExpField", "u8")],
         writes=["maxProbeExpField"], accessors={"pvGetMaxProbeExp": "maxProbeExpField"}, ret=None, lean_type="Nat",
         consts={"infProbeExp": ("Extracted.openN1InfProbeExp", "u8")},
         calls={"pvGetMaxProbe": ("openN1_pvGetMaxProbe", ["u8"], U64, [])},
         tailcalls={"pvUpdateMaxProbe": ("openN1_pvUpdateMaxProbe", ["maxProbeExpField"], [U64])}),
    # ---- C05: growth rule of Array
    dict(lean="arr_GrowCapacity", prop="C05", cxx="ArraySettings::GrowCapacity", header="Array.h",
         anchor=r"static size_t GrowCapacity\(size_t capacity, size_t minNewCapacity,\s*ArrayGrowCause growCause, bool linear\) noexcept",
         params=[("growOnReserve", "bool"), ("capacity", U64), ("minNewCapacity", U64), ("growCauseIsReserve", "bool"), ("linear", "bool")],
         ret=U64, lean_type="Nat", pre=[(r"growCause == ArrayGrowCause::reserve", "growCauseIsReserve")]),
    # ---- C02: split rule of the B-tree
    dict(lean="tree_GetSplitItemIndex", prop="C02", cxx="TreeNode::GetSplitItemIndex", header="details/TreeNode.h",
         anchor=r"static size_t GetSplitItemIndex\(size_t itemCount, size_t newItemIndex\) noexcept",
         params=[("itemCount", U64), ("newItemIndex", U64)], ret=U64, lean_type="Nat"),
    # ---- C17: number of interpolation steps of HashSorter's search
    dict(lean="hs_pvGetStepCount", prop="C17", cxx="HashSorter::pvGetStepCount", header="HashSorter.h",
         anchor=r"static size_t pvGetStepCount\(size_t count\) noexcept", params=[("count", U64)], ret=U64, lean_type="Nat"),
]


# further function tables live in tools/trspecs/<Area>.py (each defines FUNCS and optionally IMPORTS = [lean modules];
# U64 and LOG2 are provided). Each area is emitted to its own file lean/Momo/Translated/<Area>.lean, so that a function of
# one area that can no longer be translated (or whose translation no longer type-checks) only breaks the properties whose
# theorems are about that area.
def load_area_specs():
    import glob
    d = os.path.join(os.path.dirname(os.path.abspath(__file__)), "trspecs")
    areas = {}
    for f in sorted(glob.glob(os.path.join(d, "*.py"))):
        g = {"U64": U64, "LOG2": LOG2, "__file__": f}
        exec(compile(open(f).read(), f, "exec"), g)
        areas[os.path.basename(f)[:-3]] = (g.get("FUNCS", []), g.get("IMPORTS", []))
    return areas


def translate_one(spec, text):
    body = find_body(text, spec["anchor"], spec.get("occurrence", 0))
    if body is None:
        raise Unsupported("function not found (anchor %r)" % spec["anchor"])
    if spec.get("fragment"):                                     # one expression / statement group of a larger body (area Misc)
        ms = list(re.finditer(spec["fragment"], body, flags=re.S))
        if len(ms) != 1:
            raise Unsupported("fragment %r found %d times" % (spec["fragment"], len(ms)))
        body = spec.get("wrap", "{ return %s; }") % ms[0].group(1)
    for pat, repl in spec.get("pre", []):
        body = re.sub(pat, repl, body)
    for pat, repl in spec.get("cut", []):                        # checked rewrite: the marker must be there exactly once
        body, n = re.subn(pat, repl, body)
        if n != 1:
            raise Unsupported("marker %r found %d times" % (pat, n))
    if spec.get("stop_before"):                                  # translate the body up to a marker that must be there
        m = re.search(spec["stop_before"], body)
        if not m:
            raise Unsupported("marker %r not found" % spec["stop_before"])
        body = body[:m.start()] + "}"
    p = P(tokenize(body))
    stmts = p.block()
    if p.peek()[0] != "eof":
        raise Unsupported("trailing tokens")
    return Tr(spec, None).lean_def(stmts)


def _emit(repo, funcs, header, cache):
    inc = os.path.join(repo, "include", "momo")
    out, missing = [header], []
    for spec in funcs:
        path = os.path.join(inc, spec["header"])
        try:
            if path not in cache:
                cache[path] = strip_comments(open(path, encoding="utf-8", errors="replace").read())
            out.append(translate_one(spec, cache[path]))
        except (Unsupported, SyntaxError, KeyError, OSError, ValueError) as e:
            missing.append((spec.get("prop", ""), "%s: %s" % (spec["cxx"], e)))
            out.append("-- NOT TRANSLATED: %s (%s)\n" % (spec["cxx"], str(e).replace("\n", " ")))
    out.append("end Momo.Tr\n")
    return "\n".join(out), missing


_HEAD = ("%s/-!\n  GENERATED by tools/translate.py from the function bodies in /repo/include/momo — do not edit.\n"
         "  Each `def` performs the operations of the named C++ function in the same order with the C++ integer\n"
         "  semantics explicit (see tools/translate.py). Equalities with the hand-written models: Proof/TrEq*.lean.\n-/\n"
         "namespace Momo.Tr\nopen Momo\n")


def generate(repo):
    """returns (lean text of Momo/Translated.lean, missing list)"""
    return _emit(repo, FUNCS, _HEAD % "import Momo.Model.Seg\nimport Momo.Model.TrBase\n", {})


def generate_all(repo):
    """returns ({path relative to lean/Momo: text}, missing list) for Translated.lean and every Translated/<Area>.lean"""
    cache, files = {}, {}
    text, missing = _emit(repo, FUNCS, _HEAD % "import Momo.Model.Seg\nimport Momo.Model.TrBase\n", cache)
    files["Translated.lean"] = text
    for area, (funcs, imports) in sorted(load_area_specs().items()):
        imps = "".join("import %s\n" % m for m in ["Momo.Model.Seg", "Momo.Model.TrBase"] + [m for m in imports if m not in ("Momo.Model.Seg", "Momo.Model.TrBase")])
        t, m = _emit(repo, funcs, _HEAD % imps, cache)
        files["Translated/%s.lean" % area] = t
        missing += m
    return files, missing


if __name__ == "__main__":
    files, missing = generate_all(sys.argv[1] if len(sys.argv) > 1 else "/repo")
    want = sys.argv[2] if len(sys.argv) > 2 else "Translated.lean"
    sys.stdout.write(files[want])
    if missing:
        sys.stderr.write("MISSING: " + "; ".join(m for _, m in missing) + "\n")
