#!/usr/bin/env python3
"""Prints the detection matrix of the seeded changes (seeded/*/meta.json) as a markdown table (pasted into DESIGN.md section 9.4)."""
import json, glob, os
VERIF = os.path.dirname(os.path.dirname(os.path.abspath(__file__)))
print("| seeded change | breaks | what was changed | needs, to manifest | caught by (quick tier) | not caught by |")
print("|---|---|---|---|---|---|")
for mp in sorted(glob.glob(os.path.join(VERIF, "seeded", "*", "meta.json"))):
    m = json.load(open(mp))
    cr = m.get("check_results", {})
    caught, missed = [], []
    for k, r in sorted(cr.items()):
        tag = k + ("" if r.get("tier", "quick") == "quick" else "(%s)" % r["tier"])
        if r.get("caught"):
            caught.append(tag + (" +input" if r.get("with_failing_input") else " no-failing-input-found"))
        else:
            missed.append(tag)
    def cell(s):
        return str(s).replace("|", "\\|").replace("\n", " ")
    print("| %s | %s | %s | %s | %s | %s |" % (m.get("id"), m.get("breaks_property"), cell(m.get("change", ""))[:330], cell(m.get("needs_to_manifest", ""))[:260],
                                            ", ".join(caught) or "—", ", ".join(missed) or "—"))
