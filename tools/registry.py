"""Registry of properties: Lean modules/theorems to audit, correspondence harnesses, evidence texts."""

TRUSTED_BASE = [
    "Lean 4.33.0 kernel (thorough tier re-checks the property module with leanchecker)",
    "axioms allowed: propext, Classical.choice, Quot.sound (checked by #print axioms on every registered theorem on every run)",
    "Mathlib v4.33.0 modules imported by proof files (never by model files)",
    "tools/extract.py (T1: constants/tables regenerated from /repo/include on every run)",
    "correspondence check (T2): harness/*.cpp compiled against /repo/include on every run, lean/Driver (line protocol), tools/verif.py diff",
    "g++ 12 / libstdc++ as execution platform of the harness; -fno-access-control to reach private members",
]

ASSUMPTIONS = [
    "theorems are about the Lean model; the tie to the C++ is the T1 extraction plus the T2 correspondence run, whose reach is bounded by its generators (see coverage.counters)",
    "64-bit size_t, little-endian x86-64 build as compiled in this sandbox",
]

PROPS = {}
HOOK_COMMITS = []   # guarded hook commits in /repo (none needed so far)
NOT_YET = {}        # property id -> reason shown in MANIFEST.not_applicable while its machinery is not built

PROPS["C13"] = {
    "id": "C13",
    "level": "proof",
    "technique": "Lean 4 proof (induction over update lists, injectivity of triangular numbers mod 2^k) + function-level correspondence on the real bucket classes",
    "level_text": ("Kernel-checked theorems for every probe value < 2^64, every update order, every table size 2^L: the decoded bound of both "
                   "max-probe encoders covers every recorded displacement, both probe sequences are permutations of the buckets, the insertion "
                   "loop reports 'full' only when all buckets are full. The models are executable and compared with the real bucket classes "
                   "(exhaustively for small probes/tables) on every run; encoder constants are re-extracted from the headers."),
    "level_note": ("Trusted: Lean kernel, the three standard axioms, extractor, correspondence harness (g++, -fno-access-control). Modelled not "
                   "verified: the C++ byte layout of mState/mData; 64-bit wrap-around is excluded by the hypothesis p < 2^64 and shown not to occur."),
    "modules": ["Momo.Props.C13"],
    "theorems": [
        "Momo.Probe.C13_bound_open2n2",
        "Momo.Probe.C13_state_fits_open2n2",
        "Momo.Probe.C13_bound_openN1",
        "Momo.Probe.C13_seq_visits_all",
        "Momo.Probe.C13_insert_fails_only_when_full",
        "Momo.Probe.C13_lookup_examines",
    ],
    "harnesses": [
        {"name": "c13_probe", "src": "c13_probe.cpp"},
    ],
    "rule": ("enc: every probe 0..2^16 (thorough 2^20) from a fresh state on all 6 Open2N2 and 8 OpenN1/Open8 bucket instantiations, plus random "
             "boundary-biased update sequences up to 2^62 (all 6 orders of 3-element sets); seq: real GetNextBucketIndex enumerated for all homes of "
             "tables 2^0..2^5 and summarised (checksum + distinct count) for 2^6..2^20 (thorough 2^24); fill: real HashSets that cannot grow are filled "
             "until 'Hash table is full', every landing bucket compared with the model's addProbe. distinct_nontrivial counts distinct update "
             "sequences / (kind,L,home) enumerations / fill rounds."),
    "runtime_only": [],
    "not_modelled": ["SSE2 in-bucket search of BucketOpen8 (exercised by the fill suite, not modelled)",
                     "placement invariant of the whole table (I2) is part of C01's model"],
}
