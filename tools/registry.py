"""Registry of properties: Lean modules/theorems to audit, correspondence harnesses, evidence texts."""

TRUSTED_BASE = [
    "Lean 4.33.0 kernel (thorough tier re-checks the property module with leanchecker)",
    "axioms allowed: propext, Classical.choice, Quot.sound (checked by #print axioms on every registered theorem on every run)",
    "Mathlib v4.33.0 modules imported by proof files (never by model files)",
    "tools/extract.py (T1: constants/tables regenerated from /repo/include on every run)",
    "tools/translate.py (T1b: bodies of small integer functions re-translated from /repo/include into Lean defs on every run; "
    "its C++-subset semantics - wrap-around of unsigned arithmetic, integer promotion, narrowing - is stated at the top of that file)",
    "correspondence check (T2): harness/*.cpp compiled against /repo/include on every run, lean/Driver (line protocol), tools/verif.py diff",
    "g++ 12 / libstdc++ as execution platform of the harness; -fno-access-control to reach private members",
]

ASSUMPTIONS = [
    "theorems are about the Lean model; the tie to the C++ is the T1 extraction plus the T2 correspondence run, whose reach is bounded by its generators (see coverage.counters)",
    "64-bit size_t, little-endian x86-64 build as compiled in this sandbox",
]

PROPS = {}
HOOK_COMMITS = []   # guarded hook commits in /repo (none needed so far)
NOT_YET = {}        # property id -> reason shown in MANIFEST.not_applicable while its machinery is not built


def _load():
    import importlib.util, glob, os
    here = os.path.join(os.path.dirname(os.path.abspath(__file__)), "props")
    for path in sorted(glob.glob(os.path.join(here, "C*.py"))):
        spec = importlib.util.spec_from_file_location("verif_prop_" + os.path.basename(path)[:-3], path)
        mod = importlib.util.module_from_spec(spec)
        spec.loader.exec_module(mod)
        PROPS[mod.PROP["id"]] = mod.PROP


_load()
