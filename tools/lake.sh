#!/bin/sh
# Serialised `lake` for the shared project /verif/lean (several checks / sessions may build at once).
# usage: tools/lake.sh build Momo.Props.C13 momo_model
mkdir -p /verif/build
cd /verif/lean && exec flock /verif/build/lake.lock lake "$@"
