#!/usr/bin/env python3
"""Orchestrator of the momo verification machinery (see /verif/DESIGN.md section 2.4).

  verif.py setup                      build the Lean library and the model driver from clean
  verif.py check Cxx [--tier quick|thorough] [--seed N]
  verif.py replay <replay.json>       re-run what a replay file describes

A check = (T1) regenerate Extracted.lean from /repo, (proof) lake build of the property module,
audit of axioms / forbidden tokens, (T2) compile the correspondence harness against /repo/include,
run implementation and model on the same operation lines, diff, write evidence.
Exit 0: property held on everything explored.  Exit 1: a line `VIOLATION property=Cxx replay=<path>`.
"""
import sys, os, re, json, time, subprocess, shutil, fcntl, hashlib, glob, argparse, concurrent.futures

HERE = os.path.dirname(os.path.abspath(__file__))
VERIF = os.path.dirname(HERE)
LEAN = os.path.join(VERIF, "lean")
HARNESS = os.path.join(VERIF, "harness")
BUILD = os.path.join(VERIF, "build")
REPO = os.environ.get("VERIF_REPO", "/repo")
OUT = VERIF     # where evidence/ and replays/ are written


def _isolate():
    """A run against a scratch copy of momo (VERIF_REPO=<dir>: seeded changes, mutation tests) must not disturb checks of
    /repo that run at the same time: the generated files Extracted.lean / Translated*.lean and the lake build directory are
    shared state. Such a run therefore works on a private copy of the Lean project (with its build output), a private build
    directory and a private evidence / replay directory under /tmp/verif-iso-<hash of the path>/ (override: VERIF_ISO_DIR);
    remove that directory when done. Registered commands never use this: they check /repo in place."""
    global LEAN, BUILD, OUT
    if os.path.realpath(REPO) == "/repo" and not os.environ.get("VERIF_ISO_DIR"):
        return
    iso = os.environ.get("VERIF_ISO_DIR") or "/tmp/verif-iso-" + hashlib.sha1(os.path.realpath(REPO).encode()).hexdigest()[:10]
    os.makedirs(iso, exist_ok=True)
    with Lock(os.path.join(VERIF, "build", "lake.lock")):      # a consistent snapshot: nobody is building meanwhile
        subprocess.run(["rsync", "-a", "--delete", LEAN + "/", os.path.join(iso, "lean") + "/"], check=True)
    LEAN, BUILD, OUT = os.path.join(iso, "lean"), os.path.join(iso, "build"), iso
    sys.stderr.write("verif: isolated run in %s (VERIF_REPO=%s)\n" % (iso, REPO))


def model_exe_path():
    return os.path.join(LEAN, ".lake", "build", "bin", "momo_model")


ALLOWED_AXIOMS = {"propext", "Classical.choice", "Quot.sound"}
FORBIDDEN = re.compile(r"\bsorry\b|\badmit\b|^\s*axiom\s|native_decide|bv_decide|implemented_by|\bunsafe\s|maxHeartbeats\s+0")

sys.path.insert(0, HERE)
import registry  # noqa: E402
import extract   # noqa: E402
import translate  # noqa: E402


def sh(cmd, cwd=None, timeout=None, env=None, stdin=None):
    t0 = time.time()
    p = subprocess.run(cmd, cwd=cwd, shell=isinstance(cmd, str), stdout=subprocess.PIPE, stderr=subprocess.STDOUT,
                       timeout=timeout, env=env, stdin=stdin)
    return p.returncode, p.stdout.decode("utf-8", "replace"), time.time() - t0


class Lock:
    def __init__(self, path):
        os.makedirs(os.path.dirname(path), exist_ok=True)
        self.f = open(path, "w")
    def __enter__(self):
        fcntl.flock(self.f, fcntl.LOCK_EX)
        return self
    def __exit__(self, *a):
        fcntl.flock(self.f, fcntl.LOCK_UN)
        self.f.close()


# ---------------------------------------------------------------- Lean side

def _write_if_changed(path, text):
    old = open(path).read() if os.path.exists(path) else None
    if old != text:
        with open(path, "w") as f:
            f.write(text)
    return old != text


def regenerate_extracted(pid=None):
    """T1: rewrite lean/Momo/Extracted.lean (constants, tables) and lean/Momo/Translated.lean (function bodies translated
    by tools/translate.py) from the current headers; returns (ok, message, changed). A function that can no longer be
    translated only counts against the property whose theorems are about it (`pid`; None = all)."""
    try:
        text, missing = extract.generate(REPO)
    except Exception as e:  # extractor crashed on an unexpected source shape
        return False, "extractor failed: %r" % (e,), False
    changed = _write_if_changed(os.path.join(LEAN, "Momo", "Extracted.lean"), text)
    try:
        tfiles, tmissing = translate.generate_all(REPO)
    except Exception as e:
        return False, "translator failed: %r" % (e,), changed
    for rel, ttext in tfiles.items():
        os.makedirs(os.path.dirname(os.path.join(LEAN, "Momo", rel)), exist_ok=True)
        changed = _write_if_changed(os.path.join(LEAN, "Momo", rel), ttext) or changed
    msgs = []
    if missing:
        msgs.append("extractor could not find: " + ", ".join(missing))
    tm = [m for p, m in tmissing if pid is None or p == pid]
    if tm:
        msgs.append("translator could not translate: " + "; ".join(tm))
    if msgs:
        return False, " | ".join(msgs), changed
    return True, "", changed


def lake_build(targets, exe_copy=None):
    """`lake build` under the project lock; the freshly built driver is copied (still under the lock) to
    `exe_copy`, so that a concurrent build of another check cannot pull it away while this check runs"""
    with Lock(os.path.join(BUILD, "lake.lock")):
        rc, out, dt = sh(["lake", "build"] + targets, cwd=LEAN, timeout=3600)
        if rc == 0 and exe_copy and os.path.exists(model_exe_path()):
            os.makedirs(os.path.dirname(exe_copy), exist_ok=True)
            tmp = "%s.%d.tmp" % (exe_copy, os.getpid())
            shutil.copy2(model_exe_path(), tmp)
            os.replace(tmp, exe_copy)   # atomic: a running copy keeps its inode (no ETXTBSY)
    return rc, out, dt


def strip_comments(src):
    src = re.sub(r"/-.*?-/", lambda m: "\n" * m.group(0).count("\n"), src, flags=re.S)
    src = re.sub(r"--.*", "", src)
    return src


def lean_deps(module, seen=None):
    """project-local modules transitively imported by `module` (dotted name)"""
    seen = seen if seen is not None else set()
    if module in seen:
        return seen
    path = os.path.join(LEAN, *module.split(".")) + ".lean"
    if not os.path.exists(path):
        return seen
    seen.add(module)
    for line in open(path):
        m = re.match(r"\s*import\s+(\S+)", line)
        if m and (m.group(1).startswith("Momo") or m.group(1).startswith("Driver")):
            lean_deps(m.group(1), seen)
    return seen


def audit(prop):
    """forbidden-token grep over the property's modules + #print axioms of its registered theorems"""
    problems = []
    mods = set()
    for m in prop["modules"]:
        lean_deps(m, mods)
    for m in sorted(mods):
        path = os.path.join(LEAN, *m.split(".")) + ".lean"
        for i, line in enumerate(strip_comments(open(path).read()).split("\n"), 1):
            if FORBIDDEN.search(line):
                problems.append("%s:%d forbidden token: %s" % (path, i, line.strip()[:80]))
    os.makedirs(os.path.join(BUILD, prop["id"]), exist_ok=True)
    apath = os.path.join(BUILD, prop["id"], "Audit.lean")
    with open(apath, "w") as f:
        for m in prop["modules"]:
            f.write("import %s\n" % m)
        for t in prop["theorems"]:
            f.write("#print axioms %s\n" % t)
    rc, out, dt = sh(["lake", "env", "lean", apath], cwd=LEAN, timeout=1200)
    axioms = {}
    for m in re.finditer(r"'([^']+)' depends on axioms: \[([^\]]*)\]", out, flags=re.S):
        axioms[m.group(1)] = [a.strip() for a in m.group(2).replace("\n", " ").split(",") if a.strip()]
    for m in re.finditer(r"'([^']+)' does not depend on any axioms", out):
        axioms[m.group(1)] = []
    if rc != 0:
        problems.append("audit file failed to elaborate: " + out.strip()[-600:])
    for t in prop["theorems"]:
        if t not in axioms:
            problems.append("theorem %s not found by #print axioms" % t)
        else:
            bad = [a for a in axioms[t] if a not in ALLOWED_AXIOMS]
            if bad:
                problems.append("theorem %s depends on disallowed axioms %s" % (t, bad))
    return problems, axioms, sorted(mods)


# ---------------------------------------------------------------- harness side

def compile_harness(prop, h, outdir):
    exe = os.path.join(outdir, h["name"])
    flags = ["-std=c++17", "-O1", "-g", "-fno-access-control", "-I" + os.path.join(REPO, "include"), "-I" + HARNESS,
             "-DMOMO_VERIF", "-pthread"]
    if h.get("sanitize", "") == "asan":
        flags += ["-fsanitize=address,undefined", "-fno-sanitize-recover=all", "-fno-omit-frame-pointer"]
    elif h.get("sanitize", "") == "tsan":
        flags += ["-fsanitize=thread"]
    flags += h.get("flags", [])
    cmd = ["g++"] + flags + [os.path.join(HARNESS, h["src"]), "-o", exe]
    rc, out, dt = sh(cmd, timeout=1800)
    return rc, out, dt, exe, " ".join(cmd)


def run_harness(exe, seed, tier, outdir, timeout, extra_args=()):
    if os.path.exists(outdir):
        shutil.rmtree(outdir)
    os.makedirs(outdir)
    env = dict(os.environ)
    env["ASAN_OPTIONS"] = "detect_leaks=1:abort_on_error=0:halt_on_error=1:allocator_may_return_null=1"
    env["UBSAN_OPTIONS"] = "print_stacktrace=1:halt_on_error=1"
    env["TSAN_OPTIONS"] = "halt_on_error=1:second_deadlock_stack=1"
    try:
        rc, out, dt = sh([exe, str(seed), tier, outdir] + list(extra_args), timeout=timeout, env=env)
    except subprocess.TimeoutExpired:
        return 124, "harness timed out after %ss" % timeout, timeout
    return rc, out, dt


def run_model(ops_path, model_path, exe=None):
    with open(ops_path, "rb") as fin, open(model_path, "wb") as fout:
        p = subprocess.run([exe or model_exe_path()], stdin=fin, stdout=fout, stderr=subprocess.PIPE, timeout=3600)
    return p.returncode, p.stderr.decode("utf-8", "replace")


def diff_suite(ops_path, impl_path, model_path, context=12):
    """first line where model and implementation differ; returns None or a dict"""
    ops = open(ops_path, errors="replace").read().split("\n")
    impl = open(impl_path, errors="replace").read().split("\n")
    model = open(model_path, errors="replace").read().split("\n")
    body = ops[1:]  # ops[0] is the `model …` line
    n = max(len(impl), len(model))
    for i in range(n):
        a = impl[i] if i < len(impl) else "<missing>"
        b = model[i] if i < len(model) else "<missing>"
        if a != b:
            lo = max(0, i - context)
            return {"line": i + 1, "op": body[i] if i < len(body) else "<none>", "impl": a[:2000], "model": b[:2000],
                    "model_header": ops[0], "ops_before": [x[:400] for x in body[lo:i]]}
    return None


def run_suites(prop, h, exe, seed, tier, outdir, timeout, model_exe=None):
    """runs one harness executable and its model suites; returns dict"""
    res = {"harness": h["name"], "seed": seed, "tier": tier, "fails": [], "diffs": [], "crash": None, "stats": {}, "suites": {}}
    rc, out, dt = run_harness(exe, seed, tier, outdir, timeout)
    res["harness_wall_s"] = round(dt, 2)
    res["rc"] = rc
    fails = [l[5:] for l in out.split("\n") if l.startswith("FAIL ")]
    fpath = os.path.join(outdir, "fail.txt")
    if os.path.exists(fpath):
        fails = [l for l in open(fpath, errors="replace").read().split("\n") if l.strip()] or fails
    res["fails"] = fails
    if rc not in (0, 1) or (rc == 1 and not fails):
        res["crash"] = {"rc": rc, "output_tail": out[-3000:]}
    spath = os.path.join(outdir, "stats.json")
    if os.path.exists(spath):
        try:
            res["stats"] = json.load(open(spath))
        except Exception as e:
            res["stats"] = {"error": repr(e)}
    if res["crash"] is None:
        for ops in sorted(glob.glob(os.path.join(outdir, "*.ops"))):
            name = os.path.basename(ops)[:-4]
            impl = os.path.join(outdir, name + ".impl")
            model = os.path.join(outdir, name + ".model")
            mrc, merr = run_model(ops, model, model_exe)
            nlines = sum(1 for _ in open(ops, errors="replace")) - 1
            res["suites"][name] = nlines
            if mrc != 0:
                res["diffs"].append({"suite": name, "error": "model driver exit %d: %s" % (mrc, merr[-500:])})
                continue
            d = diff_suite(ops, impl, model)
            if d:
                d["suite"] = name
                res["diffs"].append(d)
    return res


# ---------------------------------------------------------------- known findings / replay / evidence

def load_known():
    p = os.path.join(VERIF, "known_findings.json")
    return json.load(open(p)) if os.path.exists(p) else []


def match_known(pid, text, known):
    for k in known:
        if k.get("status") == "open" and k.get("property") == pid and re.search(k["signature"]["match"], text):
            return k
    return None


def write_replay(pid, tier, seed, kind, payload):
    os.makedirs(os.path.join(OUT, "replays"), exist_ok=True)
    path = os.path.join(OUT, "replays", "%s-%s-seed%s-%s.json" % (pid, tier, seed, kind))
    payload = dict(payload)
    payload.update({"property": pid, "tier": tier, "seed": seed, "kind": kind,
                    "how_to_replay": "python3 /verif/tools/verif.py check %s --tier %s --seed %s" % (pid, tier, seed)})
    with open(path, "w") as f:
        json.dump(payload, f, indent=1)
    return path


def write_evidence(prop, tier, seed, wall, cov, violations, assumptions):
    os.makedirs(os.path.join(OUT, "evidence"), exist_ok=True)
    ev = {"property_id": prop["id"], "tier": tier, "seed": seed, "level": prop.get("level", "proof"),
          "coverage": cov, "assumptions": assumptions, "wall_s": round(wall, 2), "violations": violations}
    with open(os.path.join(OUT, "evidence", prop["id"] + ".json"), "w") as f:
        json.dump(ev, f, indent=1)


# ---------------------------------------------------------------- the check

def search_failing_input(prop, exes, seed, tier_dir):
    """2.5: enlarged property-level differential run (thorough budget, 8 derived seeds in parallel)"""
    found = []
    jobs = []
    with concurrent.futures.ThreadPoolExecutor(max_workers=8) as ex:
        for h, exe in exes:
            for k in range(8):
                s = seed * 100 + 17 + k
                od = os.path.join(tier_dir, "search-%s-%d" % (h["name"], k))
                jobs.append((h, s, od, ex.submit(run_harness, exe, s, "thorough" if k == 0 else "quick", od, min(h.get("timeout_thorough", 1500), 900))))
        for h, s, od, fut in jobs:
            rc, out, dt = fut.result()
            fails = [l[5:] for l in out.split("\n") if l.startswith("FAIL ")]
            fp = os.path.join(od, "fail.txt")
            if os.path.exists(fp):
                fails = [l for l in open(fp, errors="replace").read().split("\n") if l.strip()] or fails
            if not fails and rc in (0, 1):
                shutil.rmtree(od, ignore_errors=True)
            if fails or rc not in (0, 1):
                found.append({"harness": h["name"], "seed": s, "rc": rc, "fails": fails[:10], "output_tail": out[-1500:] if not fails else ""})
    return found


def check(pid, tier, seed):
    t0 = time.time()
    prop = registry.PROPS[pid]
    known = load_known()
    os.makedirs(os.path.join(BUILD, pid), exist_ok=True)
    tier_dir = os.path.join(BUILD, pid, tier)
    os.makedirs(tier_dir, exist_ok=True)
    log = []
    violations = []      # list of (kind, payload, found_input: bool)
    known_hits = []
    obligations = []     # (name, discharged: bool)

    # --- corpus first: minimized past failures are part of each harness (they run at the start of main)

    # --- T1 + proofs
    okx, msgx, changed = regenerate_extracted(pid)
    obligations.append(("T1:extract-constants+translate-functions", okx))
    proof_broken = None
    if not okx:
        proof_broken = {"stage": "extract", "message": msgx}
    model_exe = os.path.join(tier_dir, "momo_model")
    rc, out, dt = lake_build(prop["modules"] + ["momo_model"], exe_copy=model_exe)
    log.append("lake build %s: rc=%d %.1fs" % (" ".join(prop["modules"]), rc, dt))
    if rc != 0:
        errs = [l for l in out.split("\n") if l.startswith("error")][:12]
        proof_broken = proof_broken or {"stage": "lake build", "message": "\n".join(errs) or out[-1500:]}
    axioms, mods = {}, []
    if rc == 0:
        problems, axioms, mods = audit(prop)
        if problems:
            proof_broken = proof_broken or {"stage": "audit", "message": "\n".join(problems[:12])}
    for t in prop["theorems"]:
        obligations.append(("theorem:" + t, rc == 0 and t in axioms and all(a in ALLOWED_AXIOMS for a in axioms[t])))
    leanchecker = None
    if tier == "thorough" and rc == 0:
        for m in prop["modules"]:
            lrc, lout, ldt = sh(["lake", "env", "leanchecker", m], cwd=LEAN, timeout=3600)
            leanchecker = {"module": m, "rc": lrc, "wall_s": round(ldt, 1), "tail": lout.strip()[-200:]}
            obligations.append(("leanchecker:" + m, lrc == 0))
            if lrc != 0:
                proof_broken = proof_broken or {"stage": "leanchecker", "message": lout[-800:]}

    # --- T2
    exes = []
    results = []
    compile_errors = []
    with concurrent.futures.ThreadPoolExecutor(max_workers=8) as ex:
        futs = [(h, ex.submit(compile_harness, prop, h, tier_dir)) for h in prop["harnesses"]]
        for h, fut in futs:
            crc, cout, cdt, exe, ccmd = fut.result()
            log.append("compile %s: rc=%d %.1fs" % (h["name"], crc, cdt))
            if crc != 0:
                compile_errors.append({"harness": h["name"], "cmd": ccmd, "errors": "\n".join([l for l in cout.split("\n") if "error" in l][:10]) or cout[-1500:]})
            else:
                exes.append((h, exe))
    model_ok = os.path.exists(model_exe) and rc == 0
    if exes and model_ok:
        with concurrent.futures.ThreadPoolExecutor(max_workers=8) as ex:
            futs = []
            for h, exe in exes:
                seeds = [seed] if tier == "quick" else [seed, seed + 1000003]
                for s in seeds:
                    od = os.path.join(tier_dir, "out-%s-%d" % (h["name"], s))
                    futs.append(ex.submit(run_suites, prop, h, exe, s, tier, od, h.get("timeout_" + tier, 900 if tier == "quick" else 3000), model_exe))
            results = [f.result() for f in futs]

    # --- classify
    impl_fails = []
    for r in results:
        for fl in r["fails"]:
            k = match_known(pid, fl, known)
            if k:
                known_hits.append((k, fl))
            else:
                impl_fails.append({"harness": r["harness"], "seed": r["seed"], "fail": fl})
        if r["crash"]:
            txt = r["crash"]["output_tail"]
            k = match_known(pid, txt, known)
            if k:
                known_hits.append((k, "crash rc=%s" % r["crash"]["rc"]))
            else:
                impl_fails.append({"harness": r["harness"], "seed": r["seed"], "fail": "harness aborted rc=%s" % r["crash"]["rc"], "output_tail": txt})
    diffs = [dict(d, harness=r["harness"], seed=r["seed"]) for r in results for d in r["diffs"]]
    for r in results:
        for sname in r["suites"]:
            obligations.append(("correspondence:%s/%s@%s" % (r["harness"], sname, r["seed"]),
                                not any(d.get("suite") == sname for d in r["diffs"]) and not r["crash"]))
    for ce in compile_errors:
        obligations.append(("correspondence:%s(compile)" % ce["harness"], False))

    # attach the operation lines of the suites named in the failures (the replay of a history is its op file)
    attached = {}
    for r in results:
        od = os.path.join(tier_dir, "out-%s-%d" % (r["harness"], r["seed"]))
        for fl in [x["fail"] for x in impl_fails if x["harness"] == r["harness"] and x["seed"] == r["seed"]][:20]:
            for ops in glob.glob(os.path.join(od, "*.ops")):
                name = os.path.basename(ops)[:-4]
                if name in fl and name not in attached and len(attached) < 3:
                    os.makedirs(os.path.join(OUT, "replays"), exist_ok=True)
                    dst = os.path.join(OUT, "replays", "%s-%s-seed%s-%s.ops" % (pid, tier, r["seed"], name))
                    shutil.copy2(ops, dst)
                    attached[name] = dst
    if impl_fails:
        per, capped = {}, []
        for x in impl_fails:      # at most 8 failing inputs per harness, 48 in total
            per[x["harness"]] = per.get(x["harness"], 0) + 1
            if per[x["harness"]] <= 8 and len(capped) < 48:
                capped.append(x)
        violations.append(("impl-violates-property", {"failing_inputs": capped, "failing_inputs_total": len(impl_fails), "op_files": attached,
                           "note": "the implementation contradicted the property's own oracle on these inputs"}, True))
    if (proof_broken or diffs or compile_errors) and not impl_fails:
        found = search_failing_input(prop, exes, seed, tier_dir) if exes else []
        found = [f for f in found if not all(match_known(pid, x, known) for x in (f["fails"] or [f["output_tail"]]))]
        payload = {"proof_obligation_broken": proof_broken, "correspondence_diffs": diffs[:5], "harness_compile_errors": compile_errors,
                   "theorems": prop["theorems"], "modules": prop["modules"]}
        if found:
            payload["failing_inputs"] = found[:10]
            violations.append(("broken-with-failing-input", payload, True))
        else:
            payload["note"] = ("no failing input found by the enlarged search; the property is no longer shown to hold because the named "
                               "theorem(s) / correspondence suite(s) no longer check")
            violations.append(("broken-obligation", payload, False))

    # --- evidence
    stats_eval = sum(r["stats"].get("evaluations", 0) for r in results)
    stats_dn = sum(r["stats"].get("distinct_nontrivial", 0) for r in results)
    counters = {}
    samples = []
    for r in results:
        for k, v in r["stats"].get("counters", {}).items():
            counters[k] = counters.get(k, 0) + v
        samples += r["stats"].get("samples", [])[:6]
    n_obl = len(obligations)
    n_dis = sum(1 for _, ok in obligations if ok)
    cov = {
        "obligations": n_obl, "discharged": n_dis,
        "checker_cmd": "cd /verif/lean && lake build %s && lake env lean ../build/%s/Audit.lean  (#print axioms)%s" % (
            " ".join(prop["modules"]), pid, "; lake env leanchecker <module>" if tier == "thorough" else ""),
        "trusted_base": registry.TRUSTED_BASE + prop.get("trusted_extra", []),
        "theorems": {t: axioms.get(t) for t in prop["theorems"]},
        "partial_theorems": [t for t in prop["theorems"] if t.endswith("_partial")],
        "undischarged": [n for n, ok in obligations if not ok],
        "lean_modules_audited": mods,
        "evaluations": stats_eval, "distinct_nontrivial": stats_dn,
        "rule": prop.get("rule", ""),
        "samples": samples[:12] or ["(no correspondence run)"],
        "correspondence": [{"harness": r["harness"], "seed": r["seed"], "model_lines": r["suites"], "property_level_failures": len(r["fails"]),
                            "model_level_diffs": len(r["diffs"]), "wall_s": r.get("harness_wall_s")} for r in results],
        "counters": counters,
        "known_findings_hit": sorted(set(k["id"] for k, _ in known_hits)),
        "runtime_only": prop.get("runtime_only", []),
        "not_modelled": prop.get("not_modelled", []),
        "leanchecker": leanchecker,
        "log": log,
    }
    # keep the build directory small: suite files of runs without any difference are not needed again
    for r in results:
        if not r["fails"] and not r["diffs"] and not r["crash"]:
            od = os.path.join(tier_dir, "out-%s-%d" % (r["harness"], r["seed"]))
            for f in glob.glob(os.path.join(od, "*.ops")) + glob.glob(os.path.join(od, "*.impl")) + glob.glob(os.path.join(od, "*.model")):
                try:
                    os.remove(f)
                except OSError:
                    pass
    wall = time.time() - t0
    write_evidence(prop, tier, seed, wall, cov, len(violations), prop.get("assumptions", registry.ASSUMPTIONS))

    for k, fl in {k["id"]: (k, fl) for k, fl in known_hits}.values():
        print("KNOWN-FINDING: property=%s %s %s" % (pid, k["id"], k["what"]))
    if violations:
        for kind, payload, found in violations:
            path = write_replay(pid, tier, seed, kind, payload)
            if found:
                print("VIOLATION property=%s replay=%s" % (pid, path))
            else:
                print("VIOLATION property=%s replay=%s no-failing-input-found" % (pid, path))
        return 1
    print("OK property=%s tier=%s seed=%s obligations=%d/%d evaluations=%d wall=%.1fs" % (pid, tier, seed, n_dis, n_obl, stats_eval, wall))
    return 0


def setup():
    os.makedirs(BUILD, exist_ok=True)
    ok, msg, _ = regenerate_extracted()
    if not ok:
        print("setup: extractor:", msg)
    rc, out, dt = lake_build(["Momo", "momo_model"])
    print(out[-3000:])
    print("setup: lake build rc=%d %.1fs" % (rc, dt))
    return rc


def main():
    ap = argparse.ArgumentParser()
    sub = ap.add_subparsers(dest="cmd")
    sub.add_parser("setup")
    c = sub.add_parser("check")
    c.add_argument("pid")
    c.add_argument("--tier", default=os.environ.get("VERIF_TIER", "quick"))
    c.add_argument("--seed", type=int, default=int(os.environ.get("VERIF_SEED", "1")))
    r = sub.add_parser("replay")
    r.add_argument("path")
    a = ap.parse_args()
    if a.cmd == "setup":
        sys.exit(setup())
    if a.cmd == "check":
        _isolate()
        tier = a.tier if a.tier in ("quick", "thorough") else "quick"
        rc = check(a.pid, tier, a.seed)
        sys.exit(rc)
    if a.cmd == "replay":
        rp = json.load(open(a.path))
        sys.exit(check(rp["property"], rp["tier"], rp["seed"]))
    ap.print_help()
    sys.exit(2)


if __name__ == "__main__":
    main()
