#!/usr/bin/env python3
"""T1 extractor: regenerates lean/Momo/Extracted.lean from the *current* headers of /repo.

Every numeric constant, threshold and table the Lean models use is read from the source text on
every run. Theorems are stated over these names, so a changed constant re-checks every proof that
depends on it against the new value (the build of the property module then fails, or keeps
succeeding when the proof does not depend on the concrete value).

Each entry: (lean name, header (relative to include/momo), regex with ONE capture group, comment).
The regex is searched in the header after comments are stripped; the capture must be an integer
literal (decimal or 0x…).  `tables` entries capture a brace-enclosed list of integers.
A pattern that no longer matches is reported as `missing` (= the obligation cannot be re-checked).
"""
import re, os, sys

SCALARS = [
    # ---- C13 / C01: open addressing
    ("open2n2MantLimit", "details/HashBucketOpen2N2.h", r"while \(maxProbe0 >= size_t\{(\d+)\}\)", "pvUpdateMaxProbe: shift while mantissa >= this"),
    ("open2n2FastLimit", "details/HashBucketOpen2N2.h", r"if \(probe <= size_t\{(\d+)\}\)", "UpdateMaxProbe: fast path stores the probe itself"),
    ("open2n2EmptyHashProbe", "details/HashBucketOpen2N2.h", r"static const uint8_t emptyHashProbe = (\d+);", ""),
    ("open2n2LogStep", "details/HashBucketOpen2N2.h", r"static const size_t logBucketCountStep = (\d+);", ""),
    ("open2n2LogAddend", "details/HashBucketOpen2N2.h", r"static const size_t logBucketCountAddend = (\d+);", ""),
    ("openN1MantLimit", "details/HashBucketOpenN1.h", r"while \(maxProbe0 >= size_t\{(\d+)\}\)", "pvUpdateMaxProbe: 3-bit mantissa"),
    ("openN1ExpLimit", "details/HashBucketOpenN1.h", r"\(maxProbe1 <= size_t\{(\d+)\}\)", "largest storable exponent"),
    ("openN1InfProbeExp", "details/HashBucketOpenN1.h", r"static const uint8_t infProbeExp = (\d+);", ""),
    ("openN1EmptyShortHash", "details/HashBucketOpenN1.h", r"static const uint8_t emptyShortHash = (\d+);", ""),
    ("openN1MantMask", "details/HashBucketOpenN1.h", r"return \(size_t\{maxProbeExp\} & (\d+)\) << \(maxProbeExp >> 3\);", "pvGetMaxProbe mantissa mask"),
    # ---- C13 / C01: byte-level OpenN1 / Open8 buckets (Momo.OpenB)
    ("openN1ShortHashBits", "details/HashBucketOpenN1.h", r"static_cast<uint32_t>\(hashCode >> \(sizeof\(size_t\) \* 8 - (\d+)\)\)", "ptCalcShortHash: hashCode24 = top this many bits of the hash code"),
    ("openN1ShortHashShift", "details/HashBucketOpenN1.h", r"\(hashCode24 \* uint32_t\{emptyShortHash\}\) >> (\d+)\)", "ptCalcShortHash: (hashCode24 * emptyShortHash) >> this"),
    ("openN1MaxCountLimit", "details/HashBucketOpenN1.h", r"MOMO_STATIC_ASSERT\(0 < maxCount && maxCount < (\d+)\);", "BucketOpenN1: 0 < maxCount < this"),
    ("open8MaxCount", "details/HashBucketOpen8.h", r"class BucketOpen8 : public BucketOpenN1<TItemTraits, (\d+), false>", "BucketOpen8 = BucketOpenN1<., this, false> with a word-wide Find"),
    ("open8SwarOnes", "details/HashBucketOpen8.h", r"uint64_t xorHashes = \(shortHash \* (0x[0-9a-fA-F]+)ull\) \^ thisShortHashes;", "Find (no SSE2): broadcast multiplier"),
    ("open8SwarOnesSub", "details/HashBucketOpen8.h", r"uint64_t mask = \(xorHashes - (0x[0-9a-fA-F]+)ull\) & ~xorHashes &", "Find (no SSE2): zero-byte test subtrahend"),
    ("open8SwarHigh", "details/HashBucketOpen8.h", r"& ~xorHashes & (0x[0-9a-fA-F]+)ull;", "Find (no SSE2): lane flag bits (lane 7 = maxProbeExp excluded)"),
    ("open8SwarIndexShift", "details/HashBucketOpen8.h", r"size_t index = static_cast<size_t>\(MOMO_CTZ64\(mask\)\) >> (\d+);", "Find (no SSE2): lane index = ctz(mask) >> this"),
    ("logStartBucketCount", "details/BucketUtility.h", r"static const size_t logStartBucketCount = (\d+);", ""),
    # ---- C16: UIntMath::Log2 (de Bruijn) and SegmentedArraySettings index arithmetic
    ("log2Mul64", "Utility.h", r"return tab64\[\(value \* UInt\{(0x[0-9A-Fa-f]+)\}\) >> \d+\];", "pvLog2 (8-byte UInt): de Bruijn multiplier"),
    ("log2Shift64", "Utility.h", r"return tab64\[\(value \* UInt\{0x[0-9A-Fa-f]+\}\) >> (\d+)\];", "pvLog2 (8-byte UInt): final shift"),
    ("log2Mul32", "Utility.h", r"return tab32\[\(value \* UInt\{(0x[0-9A-Fa-f]+)\}\) >> \d+\];", "pvLog2 (4-byte UInt): de Bruijn multiplier"),
    ("log2Shift32", "Utility.h", r"return tab32\[\(value \* UInt\{0x[0-9A-Fa-f]+\}\) >> (\d+)\];", "pvLog2 (4-byte UInt): final shift"),
    ("segSqrtLogAdd", "SegmentedArray.h", r"return \(internal::UIntMath<>::Log2\(index1\) \+ (\d+)\) / \d+;", "sqrt pvIndexToLogItemCount: (Log2(index1) + this) / segSqrtLogDiv"),
    ("segSqrtLogDiv", "SegmentedArray.h", r"return \(internal::UIntMath<>::Log2\(index1\) \+ \d+\) / (\d+);", "sqrt pvIndexToLogItemCount divisor"),
    ("segSqrtSegMul", "SegmentedArray.h", r"return internal::UIntMath<>::Log2\(\(segIndex \* (\d+) \+ \d+\) / \d+\);", "sqrt pvSegIndexToLogItemCount: Log2((segIndex * this + add) / div)"),
    ("segSqrtSegAdd", "SegmentedArray.h", r"return internal::UIntMath<>::Log2\(\(segIndex \* \d+ \+ (\d+)\) / \d+\);", "sqrt pvSegIndexToLogItemCount addend"),
    ("segSqrtSegDiv", "SegmentedArray.h", r"return internal::UIntMath<>::Log2\(\(segIndex \* \d+ \+ \d+\) / (\d+)\);", "sqrt pvSegIndexToLogItemCount divisor"),
    ("segSqrtSegBias", "SegmentedArray.h", r"segIndex = \(index1 >> logItemCount\) \+ \(size_t\{1\} << logItemCount\) - (\d+);", "sqrt GetSegItemIndexes: segIndex = (index1 >> k) + (1 << k) - this"),
    ("segSqrtIdxBias", "SegmentedArray.h", r"size_t index1 = \(\(segIndex \+ (\d+) - \(size_t\{1\} << logItemCount\)\) << logItemCount\) \+ itemIndex1;", "sqrt GetIndex: index1 = ((segIndex + this - (1 << k)) << k) + itemIndex1"),
    ("segDefaultLogCnst", "SegmentedArray.h", r"\(tItemCountFunc == SegmentedArrayItemCountFunc::cnst\) \? (\d+) : \d+>", "default logInitialItemCount of the cnst sizing"),
    ("segDefaultLogSqrt", "SegmentedArray.h", r"\(tItemCountFunc == SegmentedArrayItemCountFunc::cnst\) \? \d+ : (\d+)>", "default logInitialItemCount of the sqrt sizing"),
    # ---- C05: ArraySettings::GrowCapacity
    ("arrGrowTinyLimit", "Array.h", r"if \(capacity <= (\d+)\)\s*newCapacity = \d+;", "GrowCapacity: capacity <= this -> arrGrowTinyCap"),
    ("arrGrowTinyCap", "Array.h", r"if \(capacity <= \d+\)\s*newCapacity = (\d+);", "GrowCapacity: new capacity of tiny arrays"),
    ("arrGrowDoubleLimit", "Array.h", r"else if \(capacity <= (\d+)\)\s*newCapacity = capacity \* \d+;", "GrowCapacity: capacity <= this -> capacity * arrGrowFactor"),
    ("arrGrowFactor", "Array.h", r"else if \(capacity <= \d+\)\s*newCapacity = capacity \* (\d+);", "GrowCapacity: factor of the doubling range"),
    ("arrGrowLinLimit", "Array.h", r"else if \(linear \|\| capacity < (\d+)\)", "GrowCapacity: linear || capacity < this -> capacity + arrGrowLinStep"),
    ("arrGrowLinStep", "Array.h", r"else if \(linear \|\| capacity < \d+\)\s*newCapacity = capacity \+ (\d+);", "GrowCapacity: linear step"),
    ("arrGrowExpDiv", "Array.h", r"newCapacity = capacity \+ \(capacity / (\d+)\) \* \d+;", "GrowCapacity: capacity + (capacity / this) * arrGrowExpMul"),
    ("arrGrowExpMul", "Array.h", r"newCapacity = capacity \+ \(capacity / \d+\) \* (\d+);", "GrowCapacity: multiplier of the exponential range"),
    # ---- C18: DataColumn.h (StrHasher, DataColumnTraits::GetVertices, DataColumnList::pvAdd / pvFillAddends)
    ("colFnvBasis", "DataColumn.h", r"static const uint64_t fnvBasis64 = (\d+)ull;", "StrHasher: FNV-1a offset basis"),
    ("colFnvPrime", "DataColumn.h", r"static const uint64_t fnvPrime64 = (\d+)ull;", "StrHasher: FNV-1a prime"),
    ("colLogVertexMin", "DataColumn.h", r"MOMO_STATIC_ASSERT\((\d+) <= logVertexCount && logVertexCount < \d+\);", "DataColumnTraits: smallest legal logVertexCount"),
    ("colLogVertexLim", "DataColumn.h", r"MOMO_STATIC_ASSERT\(\d+ <= logVertexCount && logVertexCount < (\d+)\);", "DataColumnTraits: logVertexCount < this"),
    ("colMaxColumnLogSub", "DataColumn.h", r"static const size_t maxColumnCount = size_t\{1\} << \(logVertexCount - (\d+)\);", "maxColumnCount = 1 << (logVertexCount - this)"),
    ("colMaxCodeParam", "DataColumn.h", r"static const size_t maxCodeParam = (\d+);", "pvAdd: last code parameter tried"),
    ("colWideCodeBytes", "DataColumn.h", r"if \(sizeof\(ColumnCode\) > (\d+)\)", "GetVertices: codes wider than this fold their high half in"),
    ("colShortShiftHi", "DataColumn.h", r"static_cast<uint64_t>\(columnCode\) >> (\d+)\)", "GetVertices: shortCode += code >> this"),
    ("colShortShiftMid", "DataColumn.h", r"shortCode \+= shortCode >> (\d+);\s*if \(logVertexCount <", "GetVertices: shortCode += shortCode >> this"),
    ("colShortLogLim", "DataColumn.h", r"if \(logVertexCount < (\d+)\)\s*shortCode \+= shortCode >>", "GetVertices: extra fold when logVertexCount < this"),
    ("colShortShiftLo", "DataColumn.h", r"if \(logVertexCount < \d+\)\s*shortCode \+= shortCode >> (\d+);", "GetVertices: extra fold shift"),
    ("colParamShift", "DataColumn.h", r"\^ \(codeParam >> (\d+)\);", "GetVertices: vertex1 ^= codeParam >> this"),
    ("colParamMask", "DataColumn.h", r"\^ \(codeParam & (\d+)\);", "GetVertices: vertex2 ^= codeParam & this"),
    ("colRootShiftSub", "DataColumn.h", r"addends\[v\] = size_t\{1\} << \(8 \* sizeof\(size_t\) - (\d+)\);", "pvFillAddends: root addend = 1 << (64 - this)"),
    ("colMaxEdgeMul", "DataColumn.h", r"static const size_t maxEdgeCount = (\d+) \* maxColumnCount;", "Graph: edge storage = this * maxColumnCount"),
    ("colMutRound", "DataColumn.h", r"mMutableOffsets\.SetCount\(\(offset \+ (\d+)\) / \d+, uint8_t\{0\}\);", "pvAdd: mutable-bit bytes = (offset + this) / colMutDiv"),
    ("colMutDiv", "DataColumn.h", r"mMutableOffsets\.SetCount\(\(offset \+ \d+\) / (\d+), uint8_t\{0\}\);", "pvAdd: mutable-bit bytes divisor"),
    # ---- C17: HashSorter.h / RadixSorter.h
    ("hsStepLog1", "HashSorter.h", r"return \(count < 1 << (\d+)\) \? 0 :", "pvGetStepCount: count < 2^this -> 0 extra interpolation steps"),
    ("hsStepLog2", "HashSorter.h", r"\? 0 : \(count < 1 << (\d+)\) \? 1 :", "pvGetStepCount: count < 2^this -> 1"),
    ("hsStepLog3", "HashSorter.h", r"\? 1 : \(count < 1 << (\d+)\) \? 2 : 3;", "pvGetStepCount: count < 2^this -> 2, else 3"),
    ("hsHalfSizeFactor", "HashSorter.h", r"static const size_t halfSize = (\d+) \* sizeof\(HashCode\);", "pvMultShift: halfSize = this * sizeof(HashCode) bits"),
    ("rsDefaultRadixSize", "RadixSorter.h", r"template<size_t tRadixSize = (\d+)>", "RadixSorter<>: default radix size (the one HashSorter uses)"),
    ("rsMaxRadixSize", "RadixSorter.h", r"MOMO_STATIC_ASSERT\(0 < radixSize && radixSize <= (\d+)\);", "largest legal radix size"),
    ("rsSelDiv", "RadixSorter.h", r"selectionSortMaxCount = size_t\{1\} << \(radixSize / (\d+) \+ \d+\);", "selectionSortMaxCount = 1 << (radixSize / this + rsSelAdd)"),
    ("rsSelAdd", "RadixSorter.h", r"selectionSortMaxCount = size_t\{1\} << \(radixSize / \d+ \+ (\d+)\);", "selectionSortMaxCount addend"),
    # ---- C09: MemPool.h limits and layout constants
    ("poolBlockCountLimit", "MemPool.h", r"return 0 < blockCount && blockCount < (\d+);", "CheckBlockCount: blockCount < this"),
    ("poolMaxBlockAlignment", "MemPool.h", r"return 0 < blockAlignment && blockAlignment <= (\d+);", "CheckBlockAlignment: blockAlignment <= this"),
    ("poolMinSizeRatio", "MemPool.h", r"Params::blockSize / Params::blockAlignment >= (\d+)\)", "pvCheckParams: blockSize / blockAlignment >= this when blockCount > 1"),
    ("poolCorrectSmallMul", "MemPool.h", r"\(blockSize <= blockAlignment\) \? (\d+) \* blockAlignment", "CorrectBlockSize: small sizes become this * blockAlignment"),
    ("poolOffsetLimit1", "MemPool.h", r"MOMO_ASSERT\(offset < (\d+)\);", "pvNewBlock1: alignment offset stored in a uint16_t"),
    ("poolBeginOffsetLog", "MemPool.h", r"MOMO_ASSERT\(beginOffset < \(1 << (\d+)\)\);", "pvNewBuffer: beginOffset < 2^this (stored in a uint16_t)"),
    ("poolFreeTerminator", "MemPool.h", r"pvSetNextFreeBlockIndex\(block, int8_t\{-(\d+)\}\);", "pvNewBuffer: the last free block links to -this"),
    ("poolBufSizeAlignMul", "MemPool.h", r"\+ \((\d+) \+ \(Params::blockSize / Params::blockAlignment\) % 2\) \* Params::blockAlignment", "pvGetBufferSize: (this + (S/A) % 2) * A spare bytes"),
    # ---- C12: hash-probe bytes of LimP4 / Open2N2 (stored hash bits reused on growth)
    ("limp4MaskEmpty", "details/HashBucketLimP4.h", r"static const uint8_t maskEmpty = (\d+);", "marker bit of a hash-probe byte; short hashes are below it"),
    ("limp4EmptyHashProbe", "details/HashBucketLimP4.h", r"static const uint8_t emptyHashProbe = (\d+);", ""),
    ("limp4LogStep", "details/HashBucketLimP4.h", r"static const size_t logBucketCountStep = (\d+);", ""),
    ("limp4LogAddend", "details/HashBucketLimP4.h", r"static const size_t logBucketCountAddend = (\d+);", ""),
    ("limp4ShortHashBits", "details/HashBucketLimP4.h", r"static const size_t hashCodeShift = sizeof\(size_t\) \* 8 - (\d+);", "hashCodeShift = 64 - this"),
    ("limp4BaseHashCount", "details/HashBucketLimP4.h", r"static const size_t hashCount = (\d+) \+", "hashCount = this + (8 - pointer bytes)"),
    ("open2n2ProbeShiftExtra", "details/HashBucketOpen2N2.h", r"return \(logBucketCount \+ logBucketCountAddend \+ (\d+)\) % logBucketCountStep;", "pvGetProbeShift: (L + addend + this) % step"),
    ("open2n2HashShiftAddend", "details/HashBucketOpen2N2.h", r"static const size_t hashCodeShift = sizeof\(size_t\) \* 8 - sizeof\(ShortHash\) \* 8 \+ (\d+);", "hashCodeShift = 64 - 8*sizeof(ShortHash) + this"),
    # ---- C02: details/TreeNode.h (default TreeNode<> arguments, leaf pools, GetSplitItemIndex)
    ("treeDefaultMaxCapacity", "details/TreeNode.h", r"template<size_t tMaxCapacity = (\d+),", "TreeNode<>: default maxCapacity"),
    ("treeStepThreshold", "details/TreeNode.h", r"size_t tCapacityStep = \(tMaxCapacity >= (\d+)\) \? tMaxCapacity / \d+ : \d+,", "TreeNode<>: default capacityStep = (maxCapacity >= this) ? maxCapacity / treeStepDivisor : treeStepSmall"),
    ("treeStepDivisor", "details/TreeNode.h", r"size_t tCapacityStep = \(tMaxCapacity >= \d+\) \? tMaxCapacity / (\d+) : \d+,", "TreeNode<>: default capacityStep divisor"),
    ("treeStepSmall", "details/TreeNode.h", r"size_t tCapacityStep = \(tMaxCapacity >= \d+\) \? tMaxCapacity / \d+ : (\d+),", "TreeNode<>: default capacityStep of small nodes"),
    ("treeBlockThreshold", "details/TreeNode.h", r"typename TMemPoolParams = MemPoolParams<\(tMaxCapacity < (\d+)\) \? \d+ : \d+>,", "TreeNode<>: default pool blockCount = (maxCapacity < this) ? treeBlockCountSmall : treeBlockCountLarge"),
    ("treeBlockCountSmall", "details/TreeNode.h", r"typename TMemPoolParams = MemPoolParams<\(tMaxCapacity < \d+\) \? (\d+) : \d+>,", "TreeNode<>: default pool blockCount of small nodes"),
    ("treeBlockCountLarge", "details/TreeNode.h", r"typename TMemPoolParams = MemPoolParams<\(tMaxCapacity < \d+\) \? \d+ : (\d+)>,", "TreeNode<>: default pool blockCount of large nodes"),
    ("treeMaxCapacityLimit", "details/TreeNode.h", r"MOMO_STATIC_ASSERT\(0 < maxCapacity && maxCapacity < (\d+)\);", "Node: maxCapacity < this (count is a uint8_t)"),
    ("treeLeafPoolDivisor", "details/TreeNode.h", r"static const size_t leafMemPoolCount = maxCapacity / \((\d+) \* capacityStep\) \+ 1;", "Node: leafMemPoolCount = maxCapacity / (this * capacityStep) + 1"),
    ("treeSplitDivisor", "details/TreeNode.h", r"size_t splitItemIndex = itemCount / (\d+);", "GetSplitItemIndex: itemCount / this"),
    ("treeSplitModulus", "details/TreeNode.h", r"if \(itemCount % (\d+) == 0 && splitItemIndex > newItemIndex\)", "GetSplitItemIndex: one less when itemCount % this == 0 and the new item goes left"),
    ("treeRelocNodesIntCap", "TreeSet.h", r"typedef internal::NestedArrayIntCap<(\d+), Node\*, MemManagerPtr> Nodes;", "TreeSet::Relocator: internal capacity of mOldNodes / mNewNodes (no heap block up to this many nodes)"),
    ("treeRelocSegmentsIntCap", "TreeSet.h", r"typedef internal::NestedArrayIntCap<(\d+), Segment, MemManagerPtr> Segments;", "TreeSet::Relocator: internal capacity of mSrcSegments / mDstSegments"),
    # ---- C07: DataIndexes.h (MultiHash raw segments), DataTable.h (index selection of Select)
    ("dtLogInitialSegmentSize", "DataIndexes.h", r"static const size_t logInitialSegmentSize = (\d+);", "MultiHash: the raws of one key are kept sorted per segment of SegmentedArraySettings<sqrt, this>"),
    ("dtSegMaskShift", "DataIndexes.h", r"\(rawCount & \(\((\d+) << logInitialSegmentSize\) - 1\)\) == 0", "MultiHash::pvAdd: boundary pre-test rawCount & ((this << logInitialSegmentSize) - 1)"),
    ("dtSelectEqualityMaxCount", "DataTable.h", r"static const size_t selectEqualityMaxCount = (\d+);", "DataTraits: Select peels equalities off into the filter while there are more than this"),
    # ---- C08: details/ArrayBucket.h (value array of HashMultiMap: state byte, growth pool -> heap, shrink rule), HashMultiMap.h
    ("abMaxFastLimit", "details/ArrayBucket.h", r"MOMO_STATIC_ASSERT\(0 < maxFastCount && maxFastCount < (\d+)\);", "ArrayBucket: maxFastCount < this (count nibble of the state byte)"),
    ("abStateShift", "details/ArrayBucket.h", r"return static_cast<uint8_t>\(\(memPoolIndex << (\d+)\) \| count\);", "pvMakeState: (memPoolIndex << this) | count"),
    ("abPoolShift", "details/ArrayBucket.h", r"return size_t\{pvGetState\(\)\} >> (\d+);", "pvGetMemPoolIndex: state >> this"),
    ("abCountMask", "details/ArrayBucket.h", r"return size_t\{pvGetState\(\)\} & (\d+);", "pvGetFastCount: state & this"),
    ("abHeapCapMul", "details/ArrayBucket.h", r"Array array = Array::CreateCap\(maxFastCount \* (\d+),", "AddBackCrt: first heap array has capacity maxFastCount * this"),
    ("abShrinkMinCount", "details/ArrayBucket.h", r"if \((\d+) < count && count <= array\.GetCapacity\(\) / \d+\)", "RemoveBack: shrink only when this < count"),
    ("abShrinkDiv", "details/ArrayBucket.h", r"if \(\d+ < count && count <= array\.GetCapacity\(\) / (\d+)\)", "RemoveBack: shrink when count <= capacity / this"),
    ("abShrinkMul", "details/ArrayBucket.h", r"array\.Shrink\(count \* (\d+)\);", "RemoveBack: new capacity = count * this"),
    ("mmDefaultMaxFast", "HashMultiMap.h", r"static const size_t valueArrayMaxFastCount = (\d+);", "HashMultiMapSettings: default valueArrayMaxFastCount"),
]

TABLES = [
    # ---- C16: de Bruijn tables and smear shift lists of UIntMath::pvLog2
    ("log2Tab64", "Utility.h", r"static const UInt tab64\[64\] =\s*\{([^}]*)\}", "pvLog2 (8-byte UInt) table"),
    ("log2Tab32", "Utility.h", r"static const UInt tab32\[32\] =\s*\{([^}]*)\}", "pvLog2 (4-byte UInt) table"),
    ("log2Smear64", "Utility.h", r"tab64\[64\] =\s*\{[^}]*\};\s*((?:value \|= value >> \d+;\s*)+)value -= value >> 1;\s*return tab64", "pvLog2 (8-byte UInt): shifts of the `value |= value >> s` lines, followed by `value -= value >> 1`"),
    ("log2Smear32", "Utility.h", r"tab32\[32\] =\s*\{[^}]*\};\s*((?:value \|= value >> \d+;\s*)+)return tab32", "pvLog2 (4-byte UInt): shifts of the `value |= value >> s` lines (no isolate step)"),
]

# SHAPES (C19): the *shape* of a piece of source the model mirrors statement by statement.
#   ("body",  lean name, header, regex of the function signature, expected body, doc): the brace-enclosed body that follows
#             the signature, whitespace-normalised, must equal `expected` exactly -> `def name : Nat := 1`
#   ("count", lean name, header, regex, expected count, doc): number of matches in the comment-stripped header
#             must equal `expected` -> `def name : Nat := count`
# Anything else is reported as `missing` (the obligation "the model mirrors the code" can no longer be re-checked).
SHAPES = [
    # ---- C19: lock-free hand-off of detached rows (DataRow.h / DataTable.h), default (seq_cst) memory orders
    ("body", "rowDtorShape", "DataRow.h", r"~DataRow\(\) noexcept",
     "if (mRaw == nullptr) return; mColumnList->DestroyRaw(nullptr, mRaw); void* raw = mRaw; while (true) { "
     "void* headRaw = *mFreeRaws; MemCopyer::ToBuffer(headRaw, raw); "
     "if (mFreeRaws->compare_exchange_weak(headRaw, raw)) break; }",
     "~DataRow: DestroyRaw, then a loop of one atomic load, one link write, one compare_exchange_weak (default order)"),
    ("body", "tableTakeAllShape", "DataTable.h", r"void pvDeallocateFreeRaws\(\) noexcept",
     "void* headRaw = mCrew.GetFreeRaws().exchange(nullptr); while (headRaw != nullptr) { "
     "void* nextRaw = internal::MemCopyer::FromBuffer<void*>(headRaw); mRawMemPool.Deallocate(headRaw); headRaw = nextRaw; }",
     "pvDeallocateFreeRaws: one exchange(nullptr) (default order), then walk: read link, Deallocate, advance"),
    ("body", "tableAllocRawShape", "DataTable.h", r"Raw\* pvAllocateRaw\(\)",
     "if (mCrew.GetFreeRaws() != nullptr) pvDeallocateFreeRaws(); return mRawMemPool.template Allocate<Raw>();",
     "pvAllocateRaw: atomic load of the head, take-all when non-null, then pool.Allocate"),
    # ---- C13: BucketOpen8::Find, SSE2 branch (intrinsics; the model `OpenB.sseMask` / `sseLoop` mirrors these statements)
    ("count", "open8SseMaskShape", "details/HashBucketOpen8.h",
     r"__m128i shortHashes = _mm_set1_epi8\(static_cast<char>\(shortHash\)\);\s*__m128i thisShortHashes = _mm_set_epi64x\(int64_t\{0\},\s*"
     r"MemCopyer::FromBuffer<int64_t>\(BucketOpenN1::ptGetData\(\)\)\);\s*int mask = _mm_movemask_epi8\(_mm_cmpeq_epi8\(shortHashes, thisShortHashes\)\);\s*"
     r"mask &= \(1 << maxCount\) - 1;", 1, "Find (SSE2): broadcast, 8-byte load into the low half, byte compare + movemask, restriction to the maxCount item lanes"),
    ("count", "open8SseLoopShape", "details/HashBucketOpen8.h",
     r"for \(; mask != 0; mask &= mask - 1\)\s*\{\s*size_t index = pvCountTrailingZeros15\(static_cast<uint32_t>\(mask\)\);\s*"
     r"Item\* itemPtr = BucketOpenN1::ptGetItemPtr\(index\);\s*if \(itemPred\(\*itemPtr\)\)\s*return itemPtr;\s*\}", 1,
     "Find (SSE2): candidates in ascending bit order, first accepted one returned"),
    ("count", "open8Ctz15Shape", "details/HashBucketOpen8.h",
     r"#ifdef MOMO_CTZ32\s*return static_cast<size_t>\(MOMO_CTZ32\(mask\)\);\s*#else", 1, "pvCountTrailingZeros15: MOMO_CTZ32 when available, else the table"),
    ("count", "rowFreeRawsAtomicTypedef", "DataRow.h", r"typedef std::atomic<void\*> FreeRaws;", 1, "DataRow::FreeRaws is std::atomic<void*>"),
    ("count", "tableFreeRawsAtomicTypedef", "DataTable.h", r"typedef std::atomic<void\*> FreeRaws;", 1, "DataTable::FreeRaws is std::atomic<void*>"),
    ("count", "rowExplicitMemoryOrders", "DataRow.h", r"memory_order", 0, "no explicit (weaker) memory order in DataRow.h"),
    ("count", "tableExplicitMemoryOrders", "DataTable.h", r"memory_order", 0, "no explicit (weaker) memory order in DataTable.h"),
    ("count", "rowFreeRawsUses", "DataRow.h", r"\bmFreeRaws\b", 9, "every use of DataRow::mFreeRaws (ctor/move/swap/dtor) is accounted for"),
    ("count", "tableFreeRawsUses", "DataTable.h", r"GetFreeRaws\(\)|\bfreeRaws\b", 7, "every use of Crew::freeRaws is accounted for"),
    # ---- C20: propagation traits of stdish::unsynchronized_pool_allocator (the container-level model branches on them)
    ("count", "paPoccaFalse", "stdish/pool_allocator.h", r"typedef std::false_type propagate_on_container_copy_assignment;", 1, "pool allocator: propagate_on_container_copy_assignment is false_type (copy assignment keeps the target's pool)"),
    ("count", "paPocmaTrue", "stdish/pool_allocator.h", r"typedef std::true_type propagate_on_container_move_assignment;", 1, "pool allocator: propagate_on_container_move_assignment is true_type (move assignment carries the pool)"),
    ("count", "paPocsTrue", "stdish/pool_allocator.h", r"typedef std::true_type propagate_on_container_swap;", 1, "pool allocator: propagate_on_container_swap is true_type (swap exchanges the pools)"),
    # ---- C20: no other declaration of a propagation trait, is_always_equal left to std::allocator_traits (is_empty = false: one data member)
    ("count", "paPropagateTypedefs", "stdish/pool_allocator.h", r"propagate_on_container_\w+", 3, "pool allocator: exactly the three propagation typedefs above, no second declaration"),
    ("count", "paIsAlwaysEqualDecls", "stdish/pool_allocator.h", r"is_always_equal", 0, "pool allocator: is_always_equal is not declared (allocator_traits takes is_empty<Alloc>)"),
    ("count", "paSharedPtrMember", "stdish/pool_allocator.h", r"std::shared_ptr<MemPool> mMemPool;", 1, "pool allocator: one data member, the shared_ptr to the pool (the class is not empty, so is_always_equal is false_type)"),
    # ---- C20: the bodies the model `PoolAlloc` / `PoolAllocFault` mirrors statement by statement (allocate / deallocate decision logic)
    ("body", "paAllocateShape", "stdish/pool_allocator.h", r"MOMO_NODISCARD pointer allocate\(size_type count\)",
     "if (count == 1) { MemPoolParams memPoolParams = pvGetMemPoolParams(); bool equal = pvIsEqual(memPoolParams, mMemPool->GetParams()); "
     "if (!equal && mMemPool->GetAllocateCount() == 0) { *mMemPool = MemPool(memPoolParams, MemManager(get_base_allocator())); equal = true; } "
     "if (equal) return mMemPool->template Allocate<value_type>(); } "
     "return MemManagerProxy::template Allocate<value_type>(mMemPool->GetMemManager(), count * sizeof(value_type));",
     "allocate: count == 1 and (parameters equal, or pool idle -> replaced by a fresh pool) -> MemPool::Allocate, else the memory manager"),
    ("body", "paDeallocateShape", "stdish/pool_allocator.h", r"void deallocate\(pointer ptr, size_type count\) noexcept",
     "if (count == 1 && pvIsEqual(pvGetMemPoolParams(), mMemPool->GetParams())) return mMemPool->Deallocate(ptr); "
     "MemManagerProxy::Deallocate(mMemPool->GetMemManager(), ptr, count * sizeof(value_type));",
     "deallocate: count == 1 and parameters equal -> MemPool::Deallocate, else the memory manager"),
    ("body", "paGetParamsShape", "stdish/pool_allocator.h", r"static MemPoolParams pvGetMemPoolParams\(\) noexcept",
     "return MemPoolParams(sizeof(value_type), internal::ObjectAlignmenter<value_type>::alignment);",
     "pvGetMemPoolParams: (sizeof, ObjectAlignmenter::alignment) through the MemPoolParams constructor"),
    ("body", "paIsEqualShape", "stdish/pool_allocator.h", r"static bool pvIsEqual\(const MemPoolParams& memPoolParams1,\s*const MemPoolParams& memPoolParams2\) noexcept",
     "return memPoolParams1.GetBlockSize() == memPoolParams2.GetBlockSize() && memPoolParams1.GetBlockAlignment() == memPoolParams2.GetBlockAlignment();",
     "pvIsEqual: block size and block alignment, nothing else"),
    ("body", "paSelectOnCopyShape", "stdish/pool_allocator.h", r"unsynchronized_pool_allocator select_on_container_copy_construction\(\) const(?: noexcept)?",
     "return unsynchronized_pool_allocator(get_base_allocator());",
     "select_on_container_copy_construction: a new allocator object with a pool of its own"),
    ("count", "paObjAlignmentClamp", "ObjectManager.h", r"static const size_t alignment = \(alignof\(Object\) < UIntConst::maxAlignment\)\s*\? alignof\(Object\) : UIntConst::maxAlignment;", 1,
     "ObjectAlignmenter::alignment = min(alignof(Object), UIntConst::maxAlignment): over-aligned types are clamped"),
    # ---- C15: version table - the VersionKeeper checks and every version-increment / version-check site the model `Ver` mirrors
    ("body", "verKeeperCheckShape", "IteratorUtility.h", r"void Check\(\) const",
     "MOMO_CHECK(mContainerVersion != nullptr && *mContainerVersion == mVersion);",
     "VersionKeeper<Settings,true>::Check(): one MOMO_CHECK of pointer and snapshot"),
    ("body", "verKeeperCheckAtShape", "IteratorUtility.h", r"void Check\(const size_t\* version, bool allowEmpty = false\) const",
     "(void)version; MOMO_ASSERT(version != nullptr); if (allowEmpty && mContainerVersion == nullptr) return; "
     "MOMO_CHECK(mContainerVersion == version && mVersion == *version);",
     "VersionKeeper<Settings,true>::Check(version, allowEmpty)"),
    ("count", "verCheckThrowsInvalidArgument", "UserSettings.h", r"do \{ if \(!\(expr\)\) throw std::invalid_argument\(#expr\); \} while \(false\)", 1, "MOMO_CHECK_EXCEPTION throws std::invalid_argument"),
    ("count", "verCrewIncSites", "SetUtility.h", r"\+\+mData->version;", 1, "SetCrew::IncVersion is one size_t increment"),
    ("count", "verIncSitesHashSet", "HashSet.h", r"mCrew\.IncVersion\(\)", 4, "HashSet: IncVersion in Clear, Reserve, pvAddNogrow, pvRemove"),
    ("count", "verIncSitesTreeSet", "TreeSet.h", r"IncVersion\(\)", 8, "TreeSet: IncVersion in Clear, Remove(range), MergeTo (2 paths x 2 objects), pvAdd, pvRemove"),
    ("count", "verIncSitesHashMap", "HashMap.h", r"IncVersion\(\)", 0, "HashMap forwards to its nested HashSet"),
    ("count", "verIncSitesTreeMap", "TreeMap.h", r"IncVersion\(\)", 0, "TreeMap forwards to its nested TreeSet"),
    ("count", "verValueIncSites", "HashMultiMap.h", r"\+\+mValueCrew\.GetValueVersion\(\)", 4, "HashMultiMap: value version in Clear, Remove(iter), pvAddValue, pvRemoveValues"),
    ("count", "verChangeIncSites", "DataTable.h", r"\+\+mCrew\.GetChangeVersion\(\)", 6, "DataTable: change version in Clear, TryAdd, TryUpdate(row), pvExtractRaw, pvTryUpdate, pvFilterRaws"),
    ("count", "verRemoveIncSites", "DataTable.h", r"\+\+mCrew\.GetRemoveVersion\(\)", 4, "DataTable: remove version in Clear, TryUpdate(row), pvExtractRaw, pvFilterRaws"),
    ("count", "verHashSetPosChecks", "HashSet.h", r"ConstPositionProxy::Check\(", 4, "HashSet: position checks in ResetKey, CheckIterator, pvAdd, pvRemove"),
    ("count", "verTreeSetIterChecks", "TreeSet.h", r"ConstIteratorProxy::Check\(", 6, "TreeSet: iterator checks in Remove(range) x2, ResetKey, CheckIterator, pvAdd, pvRemove"),
    ("count", "verMultiMapIterChecks", "HashMultiMap.h", r"ConstIteratorProxy::Check\(", 3, "HashMultiMap: value-iterator checks in Remove, MakeMutableIterator, CheckIterator"),
    ("count", "verTableRefChecks", "DataTable.h", r"rowRef\.GetRaw\(\);", 7, "DataTable: checked row references in Remove/Extract(ref) via GetNumber, pvTryUpdate, MakeMutableReference, pvAssign x2, pvRemove x2"),
    ("count", "verSelectionRefChecks", "DataSelection.h", r"rowRef\.GetRaw\(\);", 3, "DataSelection: checked row references in Set, Add, Insert"),
    ("count", "verSelectionReadChecks", "DataSelection.h", r"if \(!mRaws\.IsEmpty\(\)\)\s*VersionKeeper::Check\(\);", 3, "DataSelection: pvSort, pvGroup, pvBinarySearch check the selection's version"),
]


def body_after(text, sig):
    """whitespace-normalised contents of the first brace block that follows a match of `sig`, or None"""
    m = re.search(sig, text)
    if not m:
        return None
    i = text.find("{", m.end())
    if i < 0 or text[m.end():i].strip():
        return None
    depth = 0
    for j in range(i, len(text)):
        if text[j] == "{":
            depth += 1
        elif text[j] == "}":
            depth -= 1
            if depth == 0:
                return " ".join(text[i + 1:j].split())
    return None


def strip_cpp_comments(s):
    s = re.sub(r"/\*.*?\*/", " ", s, flags=re.S)
    s = re.sub(r"//[^\n]*", "", s)
    return s


def generate(repo):
    inc = os.path.join(repo, "include", "momo")
    cache = {}
    def src(rel):
        if rel not in cache:
            cache[rel] = strip_cpp_comments(open(os.path.join(inc, rel), errors="replace").read())
        return cache[rel]
    out = ["/- GENERATED by tools/extract.py from /repo/include/momo on every run (T1). Do not edit. -/",
           "namespace Momo.Extracted", ""]
    missing = []
    for name, rel, pat, doc in SCALARS:
        try:
            m = re.search(pat, src(rel))
        except FileNotFoundError:
            m = None
        if not m:
            missing.append("%s (%s)" % (name, rel))
            continue
        v = int(m.group(1), 0)
        out.append("/-- %s: %s -/" % (rel, doc or pat.replace("/-", "/ -").replace("-/", "- /")))
        out.append("@[reducible] def %s : Nat := %d" % (name, v))
    for name, rel, pat, doc in TABLES:
        try:
            m = re.search(pat, src(rel), flags=re.S)
        except FileNotFoundError:
            m = None
        if not m:
            missing.append("%s (%s)" % (name, rel))
            continue
        vals = [int(x, 0) for x in re.findall(r"0x[0-9a-fA-F]+|\d+", m.group(1))]
        out.append("/-- %s: %s -/" % (rel, doc))
        out.append("def %s : List Nat := [%s]" % (name, ", ".join(str(v) for v in vals)))
    for kind, name, rel, pat, expected, doc in SHAPES:
        try:
            text = src(rel)
        except FileNotFoundError:
            text = None
        if text is None:
            got = None
        elif kind == "body":
            got = 1 if body_after(text, pat) == expected else None
        else:
            got = len(re.findall(pat, text))
            got = got if got == expected else None
        if got is None:
            missing.append("%s (%s: shape changed)" % (name, rel))
            continue
        out.append("/-- %s: %s -/" % (rel, doc))
        out.append("@[reducible] def %s : Nat := %d" % (name, got))
    out += ["", "end Momo.Extracted", ""]
    return "\n".join(out), missing


if __name__ == "__main__":
    text, missing = generate(sys.argv[1] if len(sys.argv) > 1 else "/repo")
    sys.stdout.write(text)
    if missing:
        sys.stderr.write("MISSING: %s\n" % missing)
        sys.exit(1)
